//! C18 — the dispatcher starts every accepted task exactly once (DESIGN.md §3 C18).
//!
//! A case builds a real `compio_dispatcher::Dispatcher` (1–4 worker runtimes, concurrent or
//! sequential, io_uring / polling / default driver), lets 1–6 OS threads dispatch 1–40 generated
//! tasks each from a common start line and joins the dispatcher at a generated point.  Verdicts are
//! counters, gauges, `oneshot::Receiver::try_recv` after `join` returned and the existence of the
//! worker threads in /proc/self/task; time is only used for watchdogs (expiry = inconclusive).
use std::{
    cell::Cell,
    collections::HashMap,
    future::Future,
    num::NonZeroUsize,
    panic::{catch_unwind, AssertUnwindSafe},
    pin::Pin,
    sync::{
        atomic::{AtomicBool, AtomicI32, AtomicU32, AtomicU64, AtomicUsize, Ordering},
        mpsc, Arc, Mutex,
    },
    task::{Context, Poll},
    time::{Duration, Instant},
};

use compio_dispatcher::Dispatcher;
use compio_driver::{DispatchError, DriverType, ProactorBuilder};
use compio_io::{AsyncReadExt, AsyncWriteExt};
use futures_channel::oneshot;
use serde::{Deserialize, Serialize};
use vcore::{
    proptest::{collection::vec, prelude::*},
    Outcome, Part, Session,
};

const PANIC_MARK: &str = "verif-task-panic";
const BROKEN_MSG: &str = "cannot create compio runtime";
const WATCHDOG: Duration = Duration::from_secs(30);

// ------------------------------------------------------------------------------------------------
// case type

#[derive(Debug, Clone, Copy, Serialize, Deserialize, PartialEq)]
pub enum BodyK {
    Return,
    /// yield to the executor k times
    Yield(u8),
    /// `compio_runtime::time::sleep` for n x 250 us (<= 5 ms)
    Sleep(u8),
    /// create an anonymous pipe on the worker, write n+1 bytes, read them back
    Pipe(u8),
    Panic,
    /// `dispatch_blocking` (runs on the dispatcher's blocking pool, not on a worker) for n x 100 us
    Blocking(u8),
}

#[derive(Debug, Clone, Copy, Serialize, Deserialize, PartialEq)]
pub enum Driver {
    Default,
    IoUring,
    Poll,
}

#[derive(Debug, Clone, Copy, Serialize, Deserialize, PartialEq)]
pub enum JoinPoint {
    /// every dispatching thread has received all its results before `join` is called
    AfterResults,
    /// `join` is called as soon as all threads have dispatched; results are collected afterwards
    Immediately,
}

#[derive(Debug, Clone, Serialize, Deserialize)]
pub struct DispCase {
    pub workers: u8,
    pub concurrent: bool,
    pub driver: Driver,
    /// thread limit of the dispatcher's blocking pool (which `join` itself uses)
    pub pool_limit: u8,
    pub threads: Vec<Vec<BodyK>>,
    pub join: JoinPoint,
    /// await `join` inside a compio runtime instead of `futures_executor::block_on`
    pub join_in_runtime: bool,
    /// the proactor configuration is invalid, so every worker panics while building its runtime
    pub broken_workers: bool,
}

// ------------------------------------------------------------------------------------------------
// shared observation state

struct TaskSt {
    starts: AtomicU32,
    finished: AtomicBool,
    io_error: AtomicBool,
    started_on: Mutex<Option<String>>,
}

struct Sh {
    tasks: Vec<TaskSt>,
    /// task bodies (closure called, future not yet dropped) alive on any worker
    live_bodies: AtomicI32,
    /// per worker thread: maximum number of task bodies alive at once
    overlap: Mutex<HashMap<String, u32>>,
}

thread_local! {
    static ACTIVE: Cell<u32> = const { Cell::new(0) };
}

struct ActiveGuard(Arc<Sh>);

impl ActiveGuard {
    fn enter(sh: &Arc<Sh>, name: &str) -> Self {
        sh.live_bodies.fetch_add(1, Ordering::SeqCst);
        let n = ACTIVE.with(|a| {
            a.set(a.get() + 1);
            a.get()
        });
        let mut o = sh.overlap.lock().unwrap();
        let e = o.entry(name.to_string()).or_default();
        *e = (*e).max(n);
        ActiveGuard(sh.clone())
    }
}

impl Drop for ActiveGuard {
    fn drop(&mut self) {
        ACTIVE.with(|a| a.set(a.get() - 1));
        self.0.live_bodies.fetch_sub(1, Ordering::SeqCst);
    }
}

struct YieldNow(bool);

impl Future for YieldNow {
    type Output = ();

    fn poll(mut self: Pin<&mut Self>, cx: &mut Context<'_>) -> Poll<()> {
        if self.0 {
            Poll::Ready(())
        } else {
            self.0 = true;
            cx.waker().wake_by_ref();
            Poll::Pending
        }
    }
}

fn tag(id: usize) -> u64 {
    (id as u64).wrapping_mul(0xD6E8_FEB8_6659_FD93) ^ 0xC18
}

type Res = (usize, u64);

/// The closure handed to `Dispatcher::dispatch`: it is *called* on the worker (that call is the
/// observable "start"), the future it returns is the task body.
fn make_task(sh: Arc<Sh>, id: usize, body: BodyK) -> impl FnOnce() -> Pin<Box<dyn Future<Output = Res>>> + Send + 'static {
    move || {
        let st = &sh.tasks[id];
        st.starts.fetch_add(1, Ordering::SeqCst);
        let name = std::thread::current().name().unwrap_or("?").to_string();
        *st.started_on.lock().unwrap() = Some(name.clone());
        let guard = ActiveGuard::enter(&sh, &name);
        let sh2 = sh.clone();
        Box::pin(async move {
            let _guard = guard;
            let st = &sh2.tasks[id];
            match body {
                BodyK::Return | BodyK::Blocking(_) => {}
                BodyK::Yield(k) => {
                    for _ in 0..k {
                        YieldNow(false).await;
                    }
                }
                BodyK::Sleep(n) => compio_runtime::time::sleep(Duration::from_micros(250 * n as u64)).await,
                BodyK::Pipe(n) => {
                    let len = n as usize + 1;
                    let data: Vec<u8> = (0..len).map(|i| (i * 31 + id) as u8).collect();
                    let ok = async {
                        let (mut rx, mut tx) = compio_fs::pipe::anonymous().await?;
                        tx.write_all(data.clone()).await.0?;
                        let compio_buf::BufResult(r, back) = rx.read_exact(Vec::with_capacity(len)).await;
                        r?;
                        std::io::Result::Ok(back == data)
                    }
                    .await;
                    match ok {
                        Ok(true) => {}
                        Ok(false) => panic!("pipe round trip returned different bytes"),
                        Err(_) => st.io_error.store(true, Ordering::SeqCst),
                    }
                }
                BodyK::Panic => panic!("{PANIC_MARK} {id}"),
            }
            st.finished.store(true, Ordering::SeqCst);
            (id, tag(id))
        })
    }
}

fn make_blocking(sh: Arc<Sh>, id: usize, n: u8) -> impl FnOnce() -> Res + Send + 'static {
    move || {
        let st = &sh.tasks[id];
        st.starts.fetch_add(1, Ordering::SeqCst);
        *st.started_on.lock().unwrap() = Some("<pool>".into());
        std::thread::sleep(Duration::from_micros(100 * n as u64));
        st.finished.store(true, Ordering::SeqCst);
        (id, tag(id))
    }
}

// ------------------------------------------------------------------------------------------------
// /proc helpers

fn comm_of(tid: u32) -> Option<String> {
    std::fs::read_to_string(format!("/proc/self/task/{tid}/comm")).ok().map(|s| s.trim_end().to_string())
}

fn tids_with_prefix(prefix: &str) -> Vec<u32> {
    let mut v = vec![];
    if let Ok(rd) = std::fs::read_dir("/proc/self/task") {
        for e in rd.flatten() {
            if let Some(tid) = e.file_name().to_str().and_then(|s| s.parse::<u32>().ok()) {
                if comm_of(tid).map(|c| c.starts_with(prefix)).unwrap_or(false) {
                    v.push(tid);
                }
            }
        }
    }
    v
}

// ------------------------------------------------------------------------------------------------
// interpreter

#[derive(Debug)]
enum Got {
    Value(Res),
    Canceled,
    Pending,
    HandedBack,
}

struct Pending {
    id: usize,
    body: BodyK,
    rx: oneshot::Receiver<Res>,
}

fn poll_rx(rx: &mut oneshot::Receiver<Res>, until: Option<Instant>) -> Got {
    loop {
        match rx.try_recv() {
            Ok(Some(v)) => return Got::Value(v),
            Err(_) => return Got::Canceled,
            Ok(None) => {}
        }
        match until {
            Some(t) if Instant::now() < t => std::thread::sleep(Duration::from_micros(300)),
            _ => return Got::Pending,
        }
    }
}

static CASE_SEQ: AtomicU64 = AtomicU64::new(0);

pub fn run_case(case: &DispCase) -> Outcome {
    let t0 = Instant::now();
    let r = run_case_inner(case);
    if std::env::var("VERIF_TIMING").is_ok() {
        eprintln!("case {:?} workers={} threads={} tasks={} broken={} join={:?}: {:.1} ms", case.driver, case.workers, case.threads.len(), case.threads.iter().map(|t| t.len()).sum::<usize>(), case.broken_workers, case.join, t0.elapsed().as_secs_f64() * 1e3);
    }
    r
}

fn run_case_inner(case: &DispCase) -> Outcome {
    let workers = case.workers.clamp(1, 4) as usize;
    let nthreads = case.threads.len();
    let seq = CASE_SEQ.fetch_add(1, Ordering::Relaxed) & 0xff_ffff;
    let prefix = format!("w{seq:x}-");
    let ntasks: usize = case.threads.iter().map(|t| t.len()).sum();
    let sh = Arc::new(Sh {
        tasks: (0..ntasks).map(|_| TaskSt { starts: AtomicU32::new(0), finished: AtomicBool::new(false), io_error: AtomicBool::new(false), started_on: Mutex::new(None) }).collect(),
        overlap: Mutex::new(HashMap::new()),
        live_bodies: AtomicI32::new(0),
    });
    let mut pb = ProactorBuilder::new();
    // Known hazard kept out of the generator by construction (see notes/C18.md): `join` parks one pool
    // thread on the worker threads' exit, so with a saturated pool a worker that still needs the pool
    // (the anonymous-pipe op runs there on the polling driver) spins forever and join never returns.
    let needs_pool_on_worker = case.threads.iter().flatten().any(|b| matches!(b, BodyK::Pipe(_)));
    let pool_limit = if needs_pool_on_worker { 64 } else { case.pool_limit.max(1) as usize };
    pb.capacity(64).thread_pool_recv_timeout(Duration::from_secs(1)).thread_pool_limit(pool_limit);
    match case.driver {
        Driver::Default => {}
        Driver::IoUring => {
            pb.driver_type(DriverType::IoUring);
        }
        Driver::Poll => {
            pb.driver_type(DriverType::Poll);
        }
    }
    if case.broken_workers {
        // an SQPOLL cpu that does not exist: io_uring_setup fails, `Runtime::build` returns Err and
        // the worker's `expect("cannot create compio runtime")` panics
        pb.driver_type(DriverType::IoUring).sqpoll_idle(Duration::from_millis(10)).sqpoll_cpu(1 << 20);
    }
    let pfx = prefix.clone();
    let disp = match Dispatcher::builder()
        .worker_threads(NonZeroUsize::new(workers).unwrap())
        .concurrent(case.concurrent)
        .thread_names(move |i| format!("{pfx}{i}"))
        .proactor_builder(pb)
        .build()
    {
        Ok(d) => d,
        Err(e) => return Outcome::inconclusive(format!("Dispatcher::build: {e}")),
    };
    // the worker threads, identified before any task exists (later pool threads may inherit a worker's comm)
    let mut worker_tids = vec![];
    if !case.broken_workers {
        let end = Instant::now() + Duration::from_secs(10);
        loop {
            worker_tids = tids_with_prefix(&prefix);
            if worker_tids.len() == workers {
                break;
            }
            if Instant::now() > end {
                return Outcome::inconclusive("worker threads did not show up under their names");
            }
            std::thread::sleep(Duration::from_micros(200));
        }
    } else {
        // let the workers die (their receivers disappear), so that dispatch is refused
        let end = Instant::now() + Duration::from_secs(10);
        while !tids_with_prefix(&prefix).is_empty() && Instant::now() < end {
            std::thread::sleep(Duration::from_micros(200));
        }
    }
    let alive = |tids: &[u32]| tids.iter().filter(|t| comm_of(**t).map(|c| c.starts_with(&prefix)).unwrap_or(false)).count();

    let tm = std::env::var("VERIF_TIMING").is_ok();
    let t0 = Instant::now();
    let disp = Arc::new(disp);
    let arrived = Arc::new(AtomicUsize::new(0));
    let (rep_tx, rep_rx) = mpsc::channel::<(usize, Vec<(usize, BodyK, Got)>, usize)>();
    let mut go_txs = vec![];
    let mut handles = vec![];
    let mut first = 0;
    for (t, bodies) in case.threads.iter().enumerate() {
        let (go_tx, go_rx) = mpsc::channel::<()>();
        go_txs.push(go_tx);
        let (sh, disp, arrived, rep_tx, bodies) = (sh.clone(), disp.clone(), arrived.clone(), rep_tx.clone(), bodies.clone());
        let first_id = first;
        first += bodies.len();
        // with dead workers an accepted task can only resolve at join: never wait for it before
        let after_results = case.join == JoinPoint::AfterResults && !case.broken_workers;
        handles.push(
            std::thread::Builder::new()
                .name("c18d".into())
                .spawn(move || {
                    arrived.fetch_add(1, Ordering::SeqCst);
                    let end = Instant::now() + Duration::from_secs(2);
                    while arrived.load(Ordering::SeqCst) < nthreads && Instant::now() < end {
                        std::thread::yield_now();
                    }
                    let mut done: Vec<(usize, BodyK, Got)> = vec![];
                    let mut pending: Vec<Pending> = vec![];
                    for (k, body) in bodies.iter().enumerate() {
                        let id = first_id + k;
                        match *body {
                            BodyK::Blocking(n) => match disp.dispatch_blocking(make_blocking(sh.clone(), id, n)) {
                                Ok(rx) => pending.push(Pending { id, body: *body, rx }),
                                Err(DispatchError(f)) => {
                                    // handed back intact: run it here, once
                                    let _ = f();
                                    done.push((id, *body, Got::HandedBack));
                                }
                            },
                            _ => match disp.dispatch(make_task(sh.clone(), id, *body)) {
                                Ok(rx) => pending.push(Pending { id, body: *body, rx }),
                                Err(DispatchError(f)) => {
                                    // the very closure must come back: calling it bumps *its* start counter
                                    drop(f());
                                    done.push((id, *body, Got::HandedBack));
                                }
                            },
                        }
                    }
                    drop(disp);
                    if after_results {
                        let end = Instant::now() + WATCHDOG;
                        for mut p in pending.drain(..) {
                            let g = poll_rx(&mut p.rx, Some(end));
                            done.push((p.id, p.body, g));
                        }
                    }
                    let npending = pending.len();
                    let _ = rep_tx.send((t, std::mem::take(&mut done), npending));
                    // wait for "joined"
                    if go_rx.recv().is_err() {
                        return;
                    }
                    let end = Instant::now() + WATCHDOG;
                    for mut p in pending.drain(..) {
                        // after join returned nothing can complete a worker task any more: exact poll.
                        // blocking-pool jobs are independent of join: bounded wait.
                        let until = if matches!(p.body, BodyK::Blocking(_)) { Some(end) } else { None };
                        let g = poll_rx(&mut p.rx, until);
                        done.push((p.id, p.body, g));
                    }
                    let _ = rep_tx.send((t, done, 0));
                })
                .expect("spawn dispatching thread"),
        );
    }
    drop(rep_tx);
    let mut got: Vec<Option<(BodyK, Got, bool)>> = (0..ntasks).map(|_| None).collect(); // (body, result, judged before join)
    let mut inconclusive = None;
    for _ in 0..nthreads {
        match rep_rx.recv_timeout(WATCHDOG + Duration::from_secs(15)) {
            Ok((_, done, _)) => {
                for (id, b, g) in done {
                    got[id] = Some((b, g, true));
                }
            }
            Err(_) => {
                inconclusive = Some("a dispatching thread did not report".to_string());
                break;
            }
        }
    }
    // a receiver still pending after the watchdog although join has not been called
    let stuck_before_join = got.iter().flatten().any(|(_, g, _)| matches!(g, Got::Pending));
    if stuck_before_join && inconclusive.is_none() && !case.broken_workers {
        if alive(&worker_tids) == 0 {
            return Outcome::violation(
                "C18/workers-exited-before-join/task-result-never-delivered",
                "every worker thread has exited although the dispatcher was not joined, and an accepted task's receiver is still pending",
            );
        }
        inconclusive = Some("a result did not arrive within the watchdog (workers still alive)".into());
    }
    if let Some(why) = inconclusive {
        drop(go_txs);
        return Outcome::inconclusive(why);
    }
    if tm { eprintln!("  reports in at {:?}", t0.elapsed()); }
    let unfinished_at_join = (0..ntasks).filter(|i| !sh.tasks[*i].finished.load(Ordering::SeqCst)).count();
    let disp = match Arc::try_unwrap(disp) {
        Ok(d) => d,
        Err(_) => return Outcome::inconclusive("harness: dispatcher still shared"),
    };
    // ---- join (on a helper thread so that a hanging join cannot hang the run)
    let (jtx, jrx) = mpsc::channel::<Result<std::io::Result<()>, String>>();
    let in_rt = case.join_in_runtime;
    let jh = std::thread::Builder::new()
        .name("c18j".into())
        .spawn(move || {
            let r = catch_unwind(AssertUnwindSafe(|| {
                if in_rt {
                    compio_runtime::Runtime::new().expect("harness runtime").block_on(disp.join())
                } else {
                    futures_executor::block_on(disp.join())
                }
            }));
            let _ = jtx.send(r.map_err(|p| {
                if let Some(s) = p.downcast_ref::<String>() {
                    s.clone()
                } else if let Some(s) = p.downcast_ref::<&str>() {
                    s.to_string()
                } else {
                    "<non-string payload>".into()
                }
            }));
        })
        .expect("spawn join thread");
    let joined = match jrx.recv_timeout(WATCHDOG) {
        Ok(r) => r,
        Err(_) => {
            drop(go_txs);
            return Outcome::inconclusive("join did not return within the watchdog");
        }
    };
    if tm { eprintln!("  joined at {:?}", t0.elapsed()); }
    // exact: every worker thread has been joined, so its runtime and all task futures are dropped
    let live_after_join = sh.live_bodies.load(Ordering::SeqCst);
    // pthread_join returns a moment before the kernel removes the task from /proc: bounded grace
    let end = Instant::now() + Duration::from_secs(10);
    let mut still;
    loop {
        still = if case.broken_workers { tids_with_prefix(&prefix).len() } else { alive(&worker_tids) };
        if still == 0 || Instant::now() > end {
            break;
        }
        std::thread::sleep(Duration::from_millis(1));
    }
    if tm { eprintln!("  gone at {:?}", t0.elapsed()); }
    for g in &go_txs {
        let _ = g.send(());
    }
    for _ in 0..nthreads {
        match rep_rx.recv_timeout(WATCHDOG + Duration::from_secs(15)) {
            Ok((_, done, _)) => {
                for (id, b, g) in done {
                    if got[id].is_none() {
                        got[id] = Some((b, g, false));
                    }
                }
            }
            Err(_) => return Outcome::inconclusive("a dispatching thread did not deliver its final report"),
        }
    }
    for h in handles {
        let _ = h.join();
    }
    let _ = jh.join();
    if tm { eprintln!("  all done at {:?}", t0.elapsed()); }

    // ------------------------------------------------------------------ oracle
    let mode = if case.concurrent { "concurrent" } else { "sequential" };
    if live_after_join != 0 {
        return Outcome::violation(
            "C18/join-returned-before-workers-exited",
            format!("{live_after_join} task bodies were still alive on worker runtimes at the moment join() returned ({still} worker threads still exist 10 s later)"),
        );
    }
    if still > 0 {
        return Outcome::inconclusive("worker threads still listed in /proc 10 s after join returned");
    }
    match (&joined, case.broken_workers) {
        (Ok(Ok(())), false) => {}
        (Ok(Err(e)), false) => return Outcome::violation("C18/join-error-without-worker-panic", format!("join returned Err({e}) although no worker panicked")),
        (Err(p), false) => return Outcome::violation("C18/join-panicked-without-worker-panic", format!("join resumed a panic {p:?} although task panics are contained in their tasks")),
        (Err(p), true) if p.contains(BROKEN_MSG) => {}
        (other, true) => return Outcome::violation("C18/worker-panic-not-propagated", format!("every worker panicked while building its runtime, but join returned {other:?}")),
    }
    let mut labels: Vec<String> = vec![mode.into(), format!("driver:{:?}", case.driver)];
    let mut canceled = 0;
    let mut unstarted = 0;
    let mut handed_back = 0;
    for id in 0..ntasks {
        let Some((body, g, before_join)) = &got[id] else {
            return Outcome::inconclusive("harness: a task has no verdict");
        };
        let st = &sh.tasks[id];
        let starts = st.starts.load(Ordering::SeqCst);
        let finished = st.finished.load(Ordering::SeqCst);
        let on = st.started_on.lock().unwrap().clone();
        if st.io_error.load(Ordering::SeqCst) {
            return Outcome::inconclusive("pipe I/O error inside a task (resource shortage)");
        }
        if starts > 1 {
            return Outcome::violation(format!("C18/task-started-twice/{mode}"), format!("task {id} ({body:?}) was started {starts} times"));
        }
        let blocking = matches!(body, BodyK::Blocking(_));
        if let (Some(on), false) = (&on, blocking) {
            let ok = if matches!(g, Got::HandedBack) { on == "c18d" } else { on.starts_with(&prefix) };
            if !ok {
                return Outcome::violation("C18/task-started-on-foreign-thread", format!("task {id} was started on thread {on:?}, workers are {prefix}*"));
            }
        }
        match g {
            Got::HandedBack => {
                handed_back += 1;
                if !blocking && !case.broken_workers {
                    return Outcome::violation("C18/dispatch-refused-with-live-workers", format!("dispatch handed task {id} back although the workers are alive"));
                }
                if starts != 1 {
                    return Outcome::violation("C18/handed-back-closure-is-not-the-task", format!("task {id}: calling the closure returned in DispatchError did not start task {id} (starts = {starts})"));
                }
            }
            Got::Value(v) => {
                if *v != (id, tag(id)) {
                    return Outcome::violation("C18/result-reached-wrong-receiver", format!("receiver of task {id} got {v:?}, expected ({id}, {:#x})", tag(id)));
                }
                if starts != 1 || !finished {
                    return Outcome::violation("C18/result-without-run", format!("task {id} delivered a result but starts = {starts}, finished = {finished}"));
                }
                if *body == BodyK::Panic {
                    return Outcome::violation("C18/panicking-task-delivered-result", format!("task {id} panics but its receiver got a value"));
                }
            }
            Got::Canceled => {
                canceled += 1;
                if starts == 0 {
                    unstarted += 1;
                }
                let legal = !blocking && (*body == BodyK::Panic || case.broken_workers || (case.concurrent && !*before_join));
                if !legal {
                    let sig = if *before_join { format!("C18/result-lost/{mode}") } else { "C18/sequential-task-unfinished-at-join".to_string() };
                    return Outcome::violation(sig, format!("task {id} ({body:?}): receiver reported Canceled (starts = {starts}, finished = {finished}, judged {} join)", if *before_join { "before" } else { "after" }));
                }
                if *body == BodyK::Panic && !case.broken_workers && (*before_join || !case.concurrent) && starts != 1 {
                    return Outcome::violation(format!("C18/accepted-task-never-started/{mode}"), format!("task {id} ({body:?}) was accepted, never started, and its receiver reports Canceled"));
                }
                if finished && !blocking {
                    return Outcome::violation("C18/finished-task-result-dropped", format!("task {id} ran to completion but its receiver reports Canceled"));
                }
            }
            Got::Pending => {
                // only reachable after join returned (before join it was handled above)
                return Outcome::violation(
                    format!("C18/receiver-pending-after-join/{mode}"),
                    format!("join() has returned and all workers are gone, but the receiver of task {id} ({body:?}) is still pending (starts = {starts}, finished = {finished})"),
                );
            }
        }
    }
    if !case.concurrent {
        let o = sh.overlap.lock().unwrap();
        if let Some((w, n)) = o.iter().find(|(w, n)| **n > 1 && w.starts_with(&prefix)) {
            return Outcome::violation("C18/sequential-worker-overlapped-tasks", format!("worker {w} had {n} task bodies alive at once in sequential mode"));
        }
    } else if sh.overlap.lock().unwrap().values().any(|n| *n > 1) {
        labels.push("overlap>1".into());
    }
    let used = sh.overlap.lock().unwrap().keys().filter(|w| w.starts_with(&prefix)).count();
    if used >= 2 {
        labels.push("workers-used>=2".into());
    }
    if case.join == JoinPoint::Immediately {
        labels.push("join:immediately".into());
    }
    if case.join_in_runtime {
        labels.push("join:in-runtime".into());
    }
    if pool_limit <= 2 {
        labels.push("small-blocking-pool".into());
    } else if case.pool_limit <= 2 {
        labels.push("pool-limit-raised(pipe-bodies)".into());
    }
    if case.broken_workers {
        labels.push("broken-workers".into());
    }
    if canceled > 0 {
        labels.push("canceled-seen".into());
    }
    if unstarted > 0 {
        labels.push("never-started-at-join".into());
    }
    if handed_back > 0 {
        labels.push("handed-back".into());
    }
    if unfinished_at_join > 0 {
        labels.push("unfinished-at-join".into());
    }
    let nontrivial = (nthreads >= 2 && workers >= 2) || (case.join == JoinPoint::Immediately && unfinished_at_join > 0);
    Outcome::pass_owned(nontrivial && ntasks > 0, labels)
}

// ------------------------------------------------------------------------------------------------
// generator

fn body_strategy() -> impl Strategy<Value = BodyK> + Clone {
    prop_oneof![
        4 => Just(BodyK::Return),
        3 => (0u8..=6).prop_map(BodyK::Yield),
        3 => (0u8..=20).prop_map(BodyK::Sleep),
        2 => (0u8..=200).prop_map(BodyK::Pipe),
        1 => Just(BodyK::Panic),
        1 => (0u8..=30).prop_map(BodyK::Blocking),
    ]
}

fn case_strategy() -> impl Strategy<Value = DispCase> + Clone {
    (
        1u8..=4,
        any::<bool>(),
        prop_oneof![Just(Driver::Default), Just(Driver::IoUring), Just(Driver::Poll)],
        prop_oneof![1 => Just(1u8), 1 => Just(2u8), 3 => Just(64u8)],
        vec(prop_oneof![3 => vec(body_strategy(), 1..=8), 1 => vec(body_strategy(), 8..=40)], 1..=6),
        prop_oneof![Just(JoinPoint::AfterResults), Just(JoinPoint::Immediately)],
        any::<bool>(),
        prop_oneof![11 => Just(false), 1 => Just(true)],
    )
        .prop_map(|(workers, concurrent, driver, pool_limit, threads, join, join_in_runtime, broken_workers)| DispCase {
            workers,
            concurrent,
            driver,
            pool_limit,
            threads,
            join,
            join_in_runtime,
            broken_workers,
        })
}

// ------------------------------------------------------------------------------------------------
// part "worker-death": join waits for *every* worker, also when some of them died with a panic

const KILL_MARK: &str = "verif-injected-worker-failure";

#[derive(Debug, Clone, Serialize, Deserialize)]
pub struct DeathCase {
    /// per worker (in spawn order): `true` = its thread dies with a panic, `false` = it is busy with an accepted
    /// task for `busy_ms` when join is called
    pub dies: Vec<bool>,
    pub busy_ms: Vec<u8>,
    pub join_in_runtime: bool,
}

/// A waker that panics when it is woken. A `JoinHandle` polled with it makes the executor panic outside of any
/// task (it wakes the handle's waker itself once the sub-task completes): the worker thread dies like it would
/// on a driver error in its event loop.
struct PanicOnWake;

impl std::task::Wake for PanicOnWake {
    fn wake(self: Arc<Self>) {
        panic!("{KILL_MARK}");
    }
}

fn death_strategy() -> impl Strategy<Value = DeathCase> + Clone {
    (2usize..=4)
        .prop_flat_map(|n| (vec(any::<bool>(), n), vec(10u8..=120, n), any::<bool>()))
        .prop_map(|(mut dies, busy_ms, join_in_runtime)| {
            // at least one worker dies and at least one stays busy
            if dies.iter().all(|d| !*d) {
                dies[0] = true;
            }
            if dies.iter().all(|d| *d) {
                let last = dies.len() - 1;
                dies[last] = false;
            }
            DeathCase { dies, busy_ms, join_in_runtime }
        })
}

fn run_death(case: &DeathCase) -> Outcome {
    static SEQ: AtomicU64 = AtomicU64::new(0);
    let n = case.dies.len();
    let prefix = format!("c18k{}w", SEQ.fetch_add(1, Ordering::SeqCst) % 1000);
    let pfx = prefix.clone();
    let disp = match Dispatcher::builder().worker_threads(NonZeroUsize::new(n).unwrap()).concurrent(false).thread_names(move |i| format!("{pfx}{i}")).build() {
        Ok(d) => d,
        Err(e) => return Outcome::inconclusive(format!("Dispatcher::build: {e}")),
    };
    let name_of = || std::thread::current().name().unwrap_or("?").to_string();
    // park every worker in a gate task, learning which gate sits on which worker
    let (name_tx, name_rx) = mpsc::channel::<(usize, String)>();
    let mut releases: Vec<Option<mpsc::Sender<()>>> = vec![];
    for gate in 0..n {
        let (rtx, rrx) = mpsc::channel::<()>();
        releases.push(Some(rtx));
        let name_tx = name_tx.clone();
        if disp
            .dispatch(move || async move {
                let _ = name_tx.send((gate, name_of()));
                let _ = rrx.recv();
            })
            .is_err()
        {
            return Outcome::inconclusive("dispatch of a gate task refused");
        }
    }
    let mut gate_of_worker = vec![usize::MAX; n];
    for _ in 0..n {
        let Ok((gate, name)) = name_rx.recv_timeout(WATCHDOG) else { return Outcome::inconclusive("gate tasks did not start") };
        let Some(ix) = name.strip_prefix(&prefix).and_then(|s| s.parse::<usize>().ok()) else { return Outcome::inconclusive("gate task ran on an unnamed thread") };
        gate_of_worker[ix] = gate;
    }
    if gate_of_worker.iter().any(|g| *g == usize::MAX) {
        return Outcome::inconclusive("two gate tasks on one worker");
    }
    // busy workers first, then the dying ones: each worker is freed alone, so it is the one that takes the task
    let live = Arc::new(AtomicI32::new(0));
    let finished = Arc::new(AtomicU32::new(0));
    let go = Arc::new(AtomicBool::new(false));
    struct Live(Arc<AtomicI32>);
    impl Drop for Live {
        fn drop(&mut self) {
            self.0.fetch_sub(1, Ordering::SeqCst);
        }
    }
    let mut order: Vec<usize> = (0..n).filter(|w| !case.dies[*w]).collect();
    order.extend((0..n).filter(|w| case.dies[*w]));
    let mut receivers = vec![];
    for w in order {
        let (stx, srx) = mpsc::channel::<String>();
        releases[gate_of_worker[w]].take().unwrap().send(()).ok();
        let r = if case.dies[w] {
            disp.dispatch(move || async move {
                let _ = stx.send(name_of());
                let mut sub = compio_runtime::spawn(async {});
                let waker = std::task::Waker::from(Arc::new(PanicOnWake));
                let mut cx = Context::from_waker(&waker);
                let _ = Pin::new(&mut sub).poll(&mut cx);
                std::mem::forget(sub); // keep the handle and the waker in it alive
                for _ in 0..1000 {
                    YieldNow(false).await; // the executor completes `sub`, wakes the waker and dies
                }
                0u32
            })
            .map_err(|_| ())
        } else {
            let ms = case.busy_ms[w] as u64;
            let (live, finished, go) = (live.clone(), finished.clone(), go.clone());
            disp.dispatch(move || {
                live.fetch_add(1, Ordering::SeqCst);
                let guard = Live(live);
                async move {
                    let _guard = guard;
                    let _ = stx.send(name_of());
                    // stay busy until join is being called (so no later task can land here), then for `ms` more
                    let t0 = Instant::now();
                    while !go.load(Ordering::SeqCst) && t0.elapsed() < WATCHDOG {
                        std::thread::sleep(Duration::from_millis(1));
                        YieldNow(false).await;
                    }
                    let end = Instant::now() + Duration::from_millis(ms);
                    while Instant::now() < end {
                        std::thread::sleep(Duration::from_millis(1));
                        YieldNow(false).await;
                    }
                    finished.fetch_add(1, Ordering::SeqCst);
                    1u32
                }
            })
            .map_err(|_| ())
        };
        let Ok(rx) = r else { return Outcome::inconclusive("dispatch refused") };
        receivers.push((w, rx));
        match srx.recv_timeout(WATCHDOG) {
            Ok(name) if name == format!("{prefix}{w}") => {}
            Ok(_) => return Outcome::inconclusive("a task was taken by another worker than the one that was freed"),
            Err(_) => return Outcome::inconclusive("a steered task did not start"),
        }
    }
    let busy = case.dies.iter().filter(|d| !**d).count() as u32;
    let (jtx, jrx) = mpsc::channel::<(bool, i32, u32)>();
    let in_rt = case.join_in_runtime;
    let (live2, fin2) = (live.clone(), finished.clone());
    go.store(true, Ordering::SeqCst);
    let jh = std::thread::Builder::new()
        .name("c18j".into())
        .spawn(move || {
            let r = catch_unwind(AssertUnwindSafe(|| if in_rt { compio_runtime::Runtime::new().expect("harness runtime").block_on(disp.join()) } else { futures_executor::block_on(disp.join()) }));
            // exact: every worker thread has been joined by now, or join came back too early
            let _ = jtx.send((r.is_err(), live2.load(Ordering::SeqCst), fin2.load(Ordering::SeqCst)));
        })
        .expect("spawn join thread");
    let Ok((panicked, live_at_join, finished_at_join)) = jrx.recv_timeout(WATCHDOG) else { return Outcome::inconclusive("join did not return within the watchdog") };
    let _ = jh.join();
    // let the busy tasks end before the next case in any event
    let end = Instant::now() + Duration::from_secs(5);
    while live.load(Ordering::SeqCst) != 0 && Instant::now() < end {
        std::thread::sleep(Duration::from_millis(1));
    }
    drop(receivers);
    if live_at_join != 0 || finished_at_join != busy {
        return Outcome::violation(
            "C18/join-returned-before-workers-exited/after-worker-panic",
            format!("{live_at_join} accepted task(s) were still running on healthy workers when join() came back ({finished_at_join} of {busy} finished): dies = {:?}", case.dies),
        );
    }
    if !panicked {
        return Outcome::violation("C18/worker-panic-not-propagated/one-of-many", format!("worker(s) died with a panic (dies = {:?}) but join returned normally", case.dies));
    }
    let first_dead = case.dies.iter().position(|d| *d).unwrap();
    let later_busy = case.dies.iter().skip(first_dead + 1).any(|d| !*d);
    let mut labels = vec![format!("workers:{n}"), if in_rt { "join:in-runtime".to_string() } else { "join:block_on".to_string() }];
    if later_busy {
        labels.push("dead-worker-before-busy-worker".into());
    }
    Outcome::pass_owned(later_busy, labels)
}

fn main() {
    let prev = std::panic::take_hook();
    std::panic::set_hook(Box::new(move |info| {
        let msg = if let Some(s) = info.payload().downcast_ref::<String>() {
            s.clone()
        } else if let Some(s) = info.payload().downcast_ref::<&str>() {
            s.to_string()
        } else {
            String::new()
        };
        if (msg.contains(PANIC_MARK) || msg.contains(BROKEN_MSG) || msg.contains(KILL_MARK)) && std::env::var("VERIF_VERBOSE").is_err() {
            return;
        }
        prev(info)
    }));
    let mut s = Session::new();
    let mut p = Part::new(
        "C18",
        "dispatch",
        "case = Dispatcher(workers 1-4, concurrent|sequential, driver default/io_uring/polling, blocking-pool limit 1/2/64) x 1-6 OS threads dispatching 1-40 tasks each \
         from a common start line (bodies: return, yield k, sleep <= 5 ms, anonymous-pipe round trip, panic, dispatch_blocking job) x join point (after all results | \
         immediately after dispatching) x join awaited by futures_executor or inside a compio runtime x (1 in 12) a proactor configuration that makes every worker \
         panic at start-up. Non-trivial = (>= 2 dispatching threads and >= 2 workers) or join called while accepted tasks were unfinished; distinct = distinct serialised case.",
    );
    // a process abort (double panic in a Drop, poisoned lock) while a case runs is a verdict about that case
    p.crash_guard = true;
    p.quick_cases = 900;
    p.thorough_cases = 30000;
    p.replay_repeats = 30;
    p.max_shrink_iters = 40;
    p.assumptions = vec![
        "in concurrent mode a task whose dispatcher is joined first may be cancelled before its closure was ever called (join-first carve-out of the property); it must then report Canceled",
        "worker threads are identified by their thread names in /proc/self/task before the first task is dispatched",
    ];
    let many = |n: usize, b: BodyK| vec![b; n];
    p.regressions = vec![
        (
            "sequential-immediate-join-all-finish",
            DispCase { workers: 2, concurrent: false, driver: Driver::Default, pool_limit: 64, threads: vec![many(12, BodyK::Sleep(4)), many(12, BodyK::Yield(3))], join: JoinPoint::Immediately, join_in_runtime: false, broken_workers: false },
        ),
        (
            "concurrent-immediate-join-many",
            DispCase { workers: 1, concurrent: true, driver: Driver::Poll, pool_limit: 1, threads: vec![many(40, BodyK::Sleep(8)), many(40, BodyK::Pipe(9)), many(40, BodyK::Return)], join: JoinPoint::Immediately, join_in_runtime: true, broken_workers: false },
        ),
        (
            "broken-workers",
            DispCase { workers: 2, concurrent: true, driver: Driver::IoUring, pool_limit: 64, threads: vec![many(3, BodyK::Return), vec![BodyK::Blocking(3), BodyK::Return]], join: JoinPoint::AfterResults, join_in_runtime: false, broken_workers: true },
        ),
        (
            "after-results-mixed",
            DispCase {
                workers: 3,
                concurrent: true,
                driver: Driver::IoUring,
                pool_limit: 2,
                threads: vec![vec![BodyK::Return, BodyK::Panic, BodyK::Pipe(100), BodyK::Blocking(10)], vec![BodyK::Sleep(10), BodyK::Yield(5), BodyK::Panic], many(6, BodyK::Pipe(3))],
                join: JoinPoint::AfterResults,
                join_in_runtime: true,
                broken_workers: false,
            },
        ),
    ];
    if s.args.shard.0 != 0 {
        // the fixed cases run once per check, in shard 0
        p.regressions.clear();
    }
    // safety valve for broken trees: after three consecutive hung cases the rest is reported
    // inconclusive at once (the run then exits 2) instead of each waiting for its watchdogs
    static HUNG: std::sync::atomic::AtomicU32 = std::sync::atomic::AtomicU32::new(0);
    s.run_part(p, case_strategy(), |c| {
        if HUNG.load(Ordering::SeqCst) >= 3 {
            return Outcome::inconclusive("circuit breaker: three consecutive cases hung");
        }
        let o = run_case(c);
        match &o {
            Outcome::Inconclusive { why } => {
                eprintln!("C18: inconclusive case: {why}");
                HUNG.fetch_add(1, Ordering::SeqCst);
            }
            _ => HUNG.store(0, Ordering::SeqCst),
        }
        o
    });
    let mut p = Part::new(
        "C18",
        "worker-death",
        "case = sequential Dispatcher with 2-4 workers; every worker is parked in a gate task and then freed alone, so that the next task lands on it: a generated \
         non-empty subset of the workers dies (a JoinHandle polled with a waker that panics makes the executor panic outside any task), every other worker is busy \
         with an accepted task for 10-120 ms; then join() is called (futures_executor or inside a compio runtime). Oracle: join resumes a panic, and at the moment \
         it returns every busy task has finished and been dropped. Non-trivial = a worker that dies was spawned before a worker that is busy.",
    );
    p.crash_guard = false;
    p.quick_cases = 60;
    p.thorough_cases = 1500;
    p.replay_repeats = 5;
    p.max_shrink_iters = 20;
    p.regressions = vec![
        ("first-worker-dies-second-is-busy", DeathCase { dies: vec![true, false], busy_ms: vec![50, 80], join_in_runtime: false }),
        ("second-worker-dies-first-is-busy", DeathCase { dies: vec![false, true], busy_ms: vec![80, 50], join_in_runtime: true }),
    ];
    if s.args.shard.0 != 0 {
        p.regressions.clear();
    }
    s.run_part(p, death_strategy(), |c| {
        let o = run_death(c);
        if let Outcome::Inconclusive { why } = &o {
            eprintln!("C18/worker-death: inconclusive case: {why}");
        }
        o
    });
    s.finish();
}
