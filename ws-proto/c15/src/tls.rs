//! C15, TLS half: compio-tls client and server (both back-ends, both roles) over the scheduled
//! in-memory duplex of `mem.rs`, driven by a harness poll loop with flag wakers.  No clock, no
//! threads: dead-lock detection is exact.

use std::{
    cell::RefCell,
    future::Future,
    pin::Pin,
    rc::Rc,
    sync::{
        atomic::{AtomicBool, AtomicU64, Ordering},
        Arc,
    },
    task::{Context, Poll, Wake, Waker},
};

use compio_io::compat::AsyncStream;
use compio_tls::TlsStream;
use futures_util::{AsyncRead, AsyncReadExt, AsyncWrite, AsyncWriteExt};
use serde::{Deserialize, Serialize};
use vcore::{
    mono_range,
    proptest::{collection::vec, prelude::*},
    Outcome,
};

use crate::{
    certs::{acceptor, connector, Backend},
    mem::{EndSched, Ev, MemEnd, MemR, MemW, Sh, Shared},
};

// ------------------------------------------------------------------------------------------------
// case

#[derive(Debug, Clone, Serialize, Deserialize)]
pub struct Seg {
    pub from_client: bool,
    /// payload length in bytes (0..=65536)
    pub len: u32,
    /// raw draw: size of each `write_all` call, mapped into 1..=max(len,1)
    pub chunk: u16,
    /// `flush()` after every chunk (always once after the segment)
    pub flush_each: bool,
    /// raw draw: read buffer size, mapped into 1..=32768
    pub rbuf: u16,
}

#[derive(Debug, Clone, Copy, Serialize, Deserialize)]
pub struct SideCfg {
    pub backend: Backend,
    /// the transport is `compio_io::compat::AsyncStream` over compio-style halves of the duplex
    /// (its own write buffer makes it a flush-gated transport) instead of the futures-io end
    pub via_async_stream: bool,
}

#[derive(Debug, Clone, Serialize, Deserialize)]
pub struct TlsCase {
    pub client: SideCfg,
    pub server: SideCfg,
    pub tls12: bool,
    /// both directions at once through `AsyncReadExt::split` halves instead of turn taking
    pub duplex: bool,
    pub client_closes_first: bool,
    pub server_polled_first: bool,
    pub segs: Vec<Seg>,
    /// [client end, server end]
    pub sched: [EndSched; 2],
    /// regression cases only: do not avoid the known close_notify-lost shape (see `avoid_known_close`)
    #[serde(default)]
    pub raw_close: bool,
}

fn ev() -> impl Strategy<Value = Ev> {
    let limit = prop_oneof![
        3 => Just(0u16),
        3 => Just(1u16),
        3 => 2u16..16,
        3 => 16u16..1024,
        2 => 1024u16..20000,
    ];
    let pend = prop_oneof![5 => Just(0u8), 2 => Just(1u8), 2 => 2u8..6];
    (limit, pend).prop_map(|(limit, pend)| Ev { limit, pend })
}

fn end_sched() -> impl Strategy<Value = EndSched> {
    (any::<bool>(), vec(ev(), 0..6), vec(ev(), 0..6), vec(ev(), 0..3)).prop_map(|(buffering, read, write, flush)| EndSched { buffering, read, write, flush })
}

fn seg() -> impl Strategy<Value = Seg> {
    let len = prop_oneof![1 => Just(0u32), 3 => 1u32..64, 4 => 64u32..4096, 2 => 4096u32..20000, 1 => 20000u32..=65536];
    (any::<bool>(), len, any::<u16>(), any::<bool>(), any::<u16>()).prop_map(|(from_client, len, chunk, flush_each, rbuf)| Seg { from_client, len, chunk, flush_each, rbuf })
}

fn side() -> impl Strategy<Value = SideCfg> {
    (prop_oneof![Just(Backend::Native), Just(Backend::Rustls)], prop_oneof![3 => Just(false), 1 => Just(true)])
        .prop_map(|(backend, via_async_stream)| SideCfg { backend, via_async_stream })
}

pub fn strategy() -> impl Strategy<Value = TlsCase> + Clone {
    (side(), side(), prop_oneof![2 => Just(false), 1 => Just(true)], any::<bool>(), any::<bool>(), any::<bool>(), vec(seg(), 0..5), end_sched(), end_sched())
        .prop_map(|(client, server, tls12, duplex, client_closes_first, server_polled_first, segs, a, b)| TlsCase {
            client,
            server,
            tls12,
            duplex,
            client_closes_first,
            server_polled_first,
            segs,
            sched: [a, b],
            raw_close: false,
        })
        .sboxed()
}

impl Seg {
    fn chunk_len(&self) -> usize {
        mono_range(self.chunk, 1, (self.len as usize).max(1))
    }

    fn rbuf_len(&self) -> usize {
        mono_range(self.rbuf, 1, 32768)
    }
}

/// position-coded payload: every byte depends on the segment index and its offset
pub fn payload(seg: usize, len: usize) -> Vec<u8> {
    (0..len).map(|i| ((i as u32).wrapping_mul(31).wrapping_add((seg as u32 + 1) * 97) ^ (i as u32 >> 8)) as u8).collect()
}

// ------------------------------------------------------------------------------------------------
// transport flavours

pub enum Transport {
    Direct(MemEnd),
    Compat { s: Pin<Box<AsyncStream<(MemR, MemW)>>>, sh: Sh, me: usize, accepted: u64 },
}

impl Transport {
    fn new(end: MemEnd, via_async_stream: bool, sh: &Sh, me: usize) -> Self {
        if via_async_stream {
            Transport::Compat { s: Box::pin(AsyncStream::new(end.into_halves())), sh: sh.clone(), me, accepted: 0 }
        } else {
            Transport::Direct(end)
        }
    }
}

impl AsyncRead for Transport {
    fn poll_read(self: Pin<&mut Self>, cx: &mut Context<'_>, buf: &mut [u8]) -> Poll<std::io::Result<usize>> {
        match self.get_mut() {
            Transport::Direct(s) => Pin::new(s).poll_read(cx, buf),
            Transport::Compat { s, .. } => s.as_mut().poll_read(cx, buf),
        }
    }
}

impl AsyncWrite for Transport {
    fn poll_write(self: Pin<&mut Self>, cx: &mut Context<'_>, buf: &[u8]) -> Poll<std::io::Result<usize>> {
        match self.get_mut() {
            Transport::Direct(s) => Pin::new(s).poll_write(cx, buf),
            Transport::Compat { s, accepted, .. } => {
                let r = s.as_mut().poll_write(cx, buf);
                if let Poll::Ready(Ok(n)) = &r {
                    *accepted += *n as u64;
                }
                r
            }
        }
    }

    fn poll_flush(self: Pin<&mut Self>, cx: &mut Context<'_>) -> Poll<std::io::Result<()>> {
        match self.get_mut() {
            Transport::Direct(s) => Pin::new(s).poll_flush(cx),
            Transport::Compat { s, sh, me, accepted } => {
                let r = s.as_mut().poll_flush(cx);
                if let Poll::Ready(Ok(())) = &r {
                    // futures-io contract: a successful flush means every accepted byte reached the inner writer
                    let mut g = sh.borrow_mut();
                    if g.delivered[*me] != *accepted && g.violation.is_none() {
                        g.violation = Some((
                            "C15/tls/AsyncStream/flush-ok-but-bytes-buffered".into(),
                            format!(
                                "compio_io::compat::AsyncStream::poll_flush returned Ready(Ok) on the {} end although only {} of the {} bytes accepted by poll_write reached the inner writer",
                                ["client", "server"][*me],
                                g.delivered[*me],
                                *accepted
                            ),
                        ));
                    }
                }
                r
            }
        }
    }

    fn poll_close(self: Pin<&mut Self>, cx: &mut Context<'_>) -> Poll<std::io::Result<()>> {
        match self.get_mut() {
            Transport::Direct(s) => Pin::new(s).poll_close(cx),
            Transport::Compat { s, .. } => s.as_mut().poll_close(cx),
        }
    }
}

// ------------------------------------------------------------------------------------------------
// one side of the conversation

#[derive(Debug, Clone, Copy, PartialEq, Eq)]
enum Phase {
    Handshake,
    Data,
    Close,
    Done,
}

impl Phase {
    fn name(self) -> &'static str {
        match self {
            Phase::Handshake => "handshake",
            Phase::Data => "data",
            Phase::Close => "close",
            Phase::Done => "done",
        }
    }
}

/// (short failure shape, detail)
type Fail = (String, String);

struct SideCtl {
    phase: Phase,
    /// `close()` returned Ok on this side
    close_ok: bool,
}

impl TlsCase {
    /// Known finding C15/tls/close_notify-lost/closer=native: native `poll_close` reports success
    /// although the transport's flush of the close_notify returned `Pending` (OpenSSL discards the
    /// result of the BIO flush after an alert) and never retries it.  The shape is reachable exactly
    /// when the native side's transport is flush-gated and its flush path can return `Pending`; for
    /// those cases the application follows `close()` with `flush()` so the campaign continues.
    pub fn avoid_known_close(&self, is_client: bool) -> bool {
        let (cfg, sc) = if is_client { (&self.client, &self.sched[0]) } else { (&self.server, &self.sched[1]) };
        if self.raw_close || cfg.backend != Backend::Native {
            return false;
        }
        let pend = |l: &Vec<Ev>| l.iter().any(|e| e.pend > 0);
        // (over AsyncStream the flush path never pends: see the suppression in `run`)
        !cfg.via_async_stream && sc.buffering && pend(&sc.flush)
    }
}

/// `staged()` = bytes sitting unflushed in this side's (direct, buffering) transport end
async fn write_seg<W: AsyncWrite + Unpin>(w: &mut W, i: usize, s: &Seg, staged: &dyn Fn() -> usize) -> Result<(), Fail> {
    let data = payload(i, s.len as usize);
    for c in data.chunks(s.chunk_len()) {
        w.write_all(c).await.map_err(|e| (format!("write-error:{:?}", e.kind()), format!("segment {i}: write_all: {e}")))?;
        if s.flush_each {
            w.flush().await.map_err(|e| (format!("flush-error:{:?}", e.kind()), format!("segment {i}: flush: {e}")))?;
        }
    }
    w.flush().await.map_err(|e| (format!("flush-error:{:?}", e.kind()), format!("segment {i}: flush: {e}")))?;
    // futures-io contract: a successful flush of the TLS stream leaves nothing buffered below it
    let left = staged();
    if left > 0 {
        return Err(("flush-ok-but-bytes-staged".into(), format!("segment {i}: flush() returned Ok but {left} bytes are still unflushed in the transport")));
    }
    Ok(())
}

async fn read_seg<R: AsyncRead + Unpin>(r: &mut R, i: usize, s: &Seg) -> Result<(), Fail> {
    let want = payload(i, s.len as usize);
    let mut got = 0usize;
    let mut buf = vec![0u8; s.rbuf_len()];
    while got < want.len() {
        let k = buf.len().min(want.len() - got);
        let n = r.read(&mut buf[..k]).await.map_err(|e| (format!("read-error:{:?}", e.kind()), format!("segment {i} at {got}/{}: read: {e}", want.len())))?;
        if n == 0 {
            return Err(("early-eof".into(), format!("segment {i}: end of stream after {got} of {} bytes", want.len())));
        }
        if n > k {
            return Err(("read-count-exceeds-buffer".into(), format!("segment {i}: read returned {n} for a buffer of {k}")));
        }
        if buf[..n] != want[got..got + n] {
            let off = (0..n).find(|&j| buf[j] != want[got + j]).unwrap();
            return Err(("data-mismatch".into(), format!("segment {i}: byte {} differs (got {:#04x}, want {:#04x})", got + off, buf[off], want[got + off])));
        }
        got += n;
    }
    Ok(())
}

async fn run_side(is_client: bool, case: Rc<TlsCase>, transport: Transport, ctl: Rc<RefCell<SideCtl>>, sh: Sh, verif_dir: std::path::PathBuf) -> Result<(), Fail> {
    let me = if is_client { 0 } else { 1 };
    let cfg = if is_client { case.client } else { case.server };
    let mut s: TlsStream<Transport> = if is_client {
        connector(&verif_dir, cfg.backend, case.tls12).connect("localhost", transport).await
    } else {
        acceptor(&verif_dir, cfg.backend, case.tls12).accept(transport).await
    }
    .map_err(|e| ("handshake-error".to_string(), format!("{}: {e}", if is_client { "connect" } else { "accept" })))?;
    ctl.borrow_mut().phase = Phase::Data;
    sh.borrow_mut().set_handshaking(me, false);
    if sh.borrow().trace {
        eprintln!("  [{}] handshake done", if is_client { "client" } else { "server" });
    }

    let sh2 = sh.clone();
    let staged = move || sh2.borrow().backlog(me).1;
    if case.duplex {
        let (mut r, mut w) = s.split();
        let wr = async {
            for (i, sg) in case.segs.iter().enumerate() {
                if sg.from_client == is_client {
                    write_seg(&mut w, i, sg, &staged).await?;
                }
            }
            Ok::<(), Fail>(())
        };
        let rd = async {
            for (i, sg) in case.segs.iter().enumerate() {
                if sg.from_client != is_client {
                    read_seg(&mut r, i, sg).await?;
                }
            }
            Ok::<(), Fail>(())
        };
        let (a, b) = futures_util::future::join(wr, rd).await;
        a?;
        b?;
        s = r.reunite(w).map_err(|_| ("HARNESS-reunite".to_string(), String::new()))?;
    } else {
        for (i, sg) in case.segs.iter().enumerate() {
            if sg.from_client == is_client {
                write_seg(&mut s, i, sg, &staged).await?;
            } else {
                read_seg(&mut s, i, sg).await?;
            }
        }
    }

    ctl.borrow_mut().phase = Phase::Close;
    let mut tail = [0u8; 16];
    let avoid = case.avoid_known_close(is_client);
    if case.client_closes_first == is_client {
        s.close().await.map_err(|e| (format!("close-error:{:?}", e.kind()), format!("close: {e}")))?;
        if avoid {
            s.flush().await.map_err(|e| (format!("flush-error:{:?}", e.kind()), format!("flush after close: {e}")))?;
        }
        ctl.borrow_mut().close_ok = true;
        let n = s.read(&mut tail).await.map_err(|e| (format!("unclean-close:{:?}", e.kind()), format!("read after own close, waiting for the peer's close: {e}")))?;
        if n != 0 {
            return Err(("extra-bytes".into(), format!("{n} unexpected bytes after the last segment")));
        }
    } else {
        let n = s.read(&mut tail).await.map_err(|e| (format!("unclean-close:{:?}", e.kind()), format!("read expecting the peer's clean close: {e}")))?;
        if n != 0 {
            return Err(("extra-bytes".into(), format!("{n} unexpected bytes after the last segment")));
        }
        s.close().await.map_err(|e| (format!("close-error:{:?}", e.kind()), format!("close: {e}")))?;
        if avoid {
            s.flush().await.map_err(|e| (format!("flush-error:{:?}", e.kind()), format!("flush after close: {e}")))?;
        }
        ctl.borrow_mut().close_ok = true;
    }
    ctl.borrow_mut().phase = Phase::Done;
    drop(s);
    Ok(())
}

// ------------------------------------------------------------------------------------------------
// harness poll loop

struct Flag {
    set: AtomicBool,
    wakes: AtomicU64,
}

impl Wake for Flag {
    fn wake(self: Arc<Self>) {
        self.wake_by_ref()
    }

    fn wake_by_ref(self: &Arc<Self>) {
        self.set.store(true, Ordering::SeqCst);
        self.wakes.fetch_add(1, Ordering::SeqCst);
    }
}

/// generous upper bound of the bytes that can cross the transport in this case
fn wire_upper(case: &TlsCase) -> u64 {
    let mut w: u64 = 64 * 1024; // both handshake flights, tickets, close alerts
    for s in &case.segs {
        let calls = (s.len as u64).div_ceil(s.chunk_len() as u64) + 2;
        w += s.len as u64 + 96 * calls + 96 * (s.len as u64 / 4096 + 1);
    }
    w
}

pub fn run(case: &TlsCase, verif_dir: &std::path::Path) -> Outcome {
    let wire = wire_upper(case);
    // every wire byte needs at most one write call and one read call, each possibly preceded by
    // one scheduled Pending and one flush; the factor leaves an order of magnitude of slack
    let call_cap = 40 * wire + 100_000;
    let step_cap = 2 * call_cap;
    let sh = Shared::new(case.sched.clone(), call_cap);
    if !case.raw_close {
        // known finding C15/tls/AsyncStream/flush-ok-but-bytes-buffered: reachable exactly when the inner
        // writer of an AsyncStream returns Pending on its flush path; avoided by construction
        for (i, cfg) in [case.client, case.server].iter().enumerate() {
            if cfg.via_async_stream {
                sh.borrow_mut().suppress_pend[i][1] = true;
                sh.borrow_mut().suppress_pend[i][2] = true;
            }
        }
    }
    if !case.raw_close {
        // known finding C15/tls/rustls/handshake/pending-flush-never-retried (futures-rustls forgets a flush
        // that returned Pending while handshaking): avoided by construction on flush-gated rustls ends
        for (i, cfg) in [case.client, case.server].iter().enumerate() {
            if cfg.backend == Backend::Rustls && !cfg.via_async_stream && case.sched[i].buffering {
                sh.borrow_mut().suppress_pend_hs[i][2] = true;
            }
        }
    }
    let (ce, se) = MemEnd::pair(&sh);
    let rc = Rc::new(case.clone());
    let ctl = [Rc::new(RefCell::new(SideCtl { phase: Phase::Handshake, close_ok: false })), Rc::new(RefCell::new(SideCtl { phase: Phase::Handshake, close_ok: false }))];
    let mut futs: [Option<Pin<Box<dyn Future<Output = Result<(), Fail>>>>>; 2] = [
        Some(Box::pin(run_side(true, rc.clone(), Transport::new(ce, case.client.via_async_stream, &sh, 0), ctl[0].clone(), sh.clone(), verif_dir.to_path_buf()))),
        Some(Box::pin(run_side(false, rc.clone(), Transport::new(se, case.server.via_async_stream, &sh, 1), ctl[1].clone(), sh.clone(), verif_dir.to_path_buf()))),
    ];
    let flags = [Arc::new(Flag { set: AtomicBool::new(true), wakes: AtomicU64::new(0) }), Arc::new(Flag { set: AtomicBool::new(true), wakes: AtomicU64::new(0) })];
    let wakers = [Waker::from(flags[0].clone()), Waker::from(flags[1].clone())];
    let mut results: [Option<Result<(), Fail>>; 2] = [None, None];
    let mut polls = [0u64; 2];
    let order = if case.server_polled_first { [1usize, 0] } else { [0usize, 1] };
    let names = ["client", "server"];
    let backends = format!("c={},s={}", case.client.backend.name(), case.server.backend.name());
    let mut steps = 0u64;
    let mut failure: Option<(String, String)> = None;

    'outer: loop {
        let mut progressed = false;
        for &i in &order {
            if futs[i].is_some() && flags[i].set.swap(false, Ordering::SeqCst) {
                progressed = true;
                polls[i] += 1;
                let mut cx = Context::from_waker(&wakers[i]);
                if let Poll::Ready(r) = futs[i].as_mut().unwrap().as_mut().poll(&mut cx) {
                    futs[i] = None; // drops the stream: the transport end hangs up
                    if let Err((shape, detail)) = &r {
                        let phase = ctl[i].borrow().phase;
                        let peer_cfg = if i == 0 { case.server } else { case.client };
                        if phase == Phase::Close && shape.starts_with("unclean-close") && ctl[1 - i].borrow().close_ok {
                            // the peer's close() reported success, yet its close_notify never arrived
                            failure = Some((
                                format!("C15/tls/close_notify-lost/closer={}", peer_cfg.backend.name()),
                                format!("{} [{backends}] saw the transport end without close_notify although the peer's close() returned Ok: {detail}", names[i]),
                            ));
                            results[i] = Some(r);
                            break 'outer;
                        }
                        failure = Some((format!("C15/tls/{}/{}/{}/{}", if i == 0 { case.client.backend.name() } else { case.server.backend.name() }, names[i], phase.name(), shape), format!("{} [{backends}]: {detail}", names[i])));
                        results[i] = Some(r);
                        break 'outer;
                    }
                    results[i] = Some(r);
                }
            }
        }
        if let Some(v) = sh.borrow_mut().violation.take() {
            failure = Some(v);
            break;
        }
        if futs[0].is_none() && futs[1].is_none() {
            break;
        }
        steps += 1;
        let fired = Shared::tick(&sh, !progressed);
        if !progressed && fired == 0 && !flags[0].set.load(Ordering::SeqCst) && !flags[1].set.load(Ordering::SeqCst) {
            // nobody is runnable, no waker fired, the transport has nothing scheduled: exact dead-lock
            debug_assert!(!sh.borrow().has_timers());
            let p = [ctl[0].borrow().phase, ctl[1].borrow().phase];
            let s = sh.borrow();
            let mut sig = format!("C15/tls/deadlock/{backends}/client={},server={}", p[0].name(), p[1].name());
            for i in 0..2 {
                // root cause visible in the transport: staged bytes whose flush returned Pending and was never retried
                if futs[i].is_some() && s.backlog(i).1 > 0 && s.flush_unretried[i] {
                    let b = if i == 0 { case.client.backend } else { case.server.backend };
                    sig = format!("C15/tls/{}/{}/pending-flush-never-retried", b.name(), p[i].name());
                }
            }
            failure = Some((
                sig,
                format!(
                    "both sides Pending, no waker fired, nothing scheduled; client backlog (visible,staged)={:?} server backlog={:?}; polls={polls:?}",
                    s.backlog(0),
                    s.backlog(1)
                ),
            ));
            break;
        }
        if steps > step_cap || sh.borrow().cap_hit {
            let p = [ctl[0].borrow().phase, ctl[1].borrow().phase];
            failure = Some((
                format!("C15/tls/spin/{backends}/client={},server={}", p[0].name(), p[1].name()),
                format!("{steps} harness steps / {} transport calls for at most {wire} wire bytes", sh.borrow().calls),
            ));
            break;
        }
    }
    // a side that failed because the spin cap turned the transport into errors is a spin
    if sh.borrow().cap_hit {
        if let Some((sig, _)) = &failure {
            if !sig.contains("/spin/") {
                let p = [ctl[0].borrow().phase, ctl[1].borrow().phase];
                failure = Some((
                    format!("C15/tls/spin/{backends}/client={},server={}", p[0].name(), p[1].name()),
                    format!("{} transport calls for at most {wire} wire bytes", sh.borrow().calls),
                ));
            }
        }
    }
    drop(futs);
    if let Some((sig, detail)) = failure {
        return Outcome::violation(sig, detail);
    }
    // leftovers: everything written must have been consumed (exactly once is checked by the readers)
    let (st_c, st_s) = (sh.borrow().stats(0), sh.borrow().stats(1));
    let mut labels: Vec<String> = vec![
        format!("backends:{backends}"),
        format!("tls:{}", if case.tls12 || case.server.backend == Backend::Native { "1.2" } else { "1.3" }),
        format!("mode:{}", if case.duplex { "duplex" } else { "turns" }),
    ];
    let buffering = [case.sched[0].buffering || case.client.via_async_stream, case.sched[1].buffering || case.server.via_async_stream];
    if buffering[0] || buffering[1] {
        labels.push("flush-gated-transport".into());
    }
    if case.client.via_async_stream || case.server.via_async_stream {
        labels.push("via-compio-AsyncStream".into());
    }
    let pend_wf = |sc: &EndSched| sc.write.iter().chain(&sc.flush).any(|e| e.pend > 0);
    if !case.raw_close && ((case.client.via_async_stream && pend_wf(&case.sched[0])) || (case.server.via_async_stream && pend_wf(&case.sched[1]))) {
        labels.push("known-shape-avoided:AsyncStream-stale-flush(no Pending on its write/flush path)".into());
    }
    let rustls_gated = |cfg: &SideCfg, sc: &EndSched| cfg.backend == Backend::Rustls && !cfg.via_async_stream && sc.buffering && sc.flush.iter().any(|e| e.pend > 0);
    if !case.raw_close && (rustls_gated(&case.client, &case.sched[0]) || rustls_gated(&case.server, &case.sched[1])) {
        labels.push("known-shape-avoided:rustls-handshake-pending-flush(no Pending flush while handshaking)".into());
    }
    if case.avoid_known_close(true) || case.avoid_known_close(false) {
        labels.push("known-shape-avoided:close_notify-lost(flush after close)".into());
    }
    let hs_partial_and_pending = |s: &crate::mem::EndStats| s.hs_partial_writes > 0 && s.hs_pend_reads > 0;
    if hs_partial_and_pending(&st_c) || hs_partial_and_pending(&st_s) {
        labels.push("handshake:partial-write+pending-read".into());
    }
    if st_c.hs_pend_writes + st_s.hs_pend_writes > 0 {
        labels.push("handshake:pending-write".into());
    }
    if st_c.sched_pend[2] + st_s.sched_pend[2] > 0 {
        labels.push("pending-flush".into());
    }
    if st_c.short_reads + st_s.short_reads > 0 {
        labels.push("short-reads".into());
    }
    let total: u64 = case.segs.iter().map(|s| s.len as u64).sum();
    labels.push(match total {
        0 => "payload:0",
        1..=1023 => "payload:<1K",
        1024..=16383 => "payload:<16K",
        _ => "payload:>=16K",
    }
    .into());
    let nontrivial = labels.iter().any(|l| l == "flush-gated-transport" || l == "handshake:partial-write+pending-read");
    Outcome::pass_owned(nontrivial, labels)
}

// ------------------------------------------------------------------------------------------------
// fixed cases

pub fn regressions() -> Vec<(&'static str, TlsCase)> {
    let side = |backend, via_async_stream| SideCfg { backend, via_async_stream };
    let pend1 = vec![Ev { limit: 0, pend: 1 }];
    let base = |client, server| TlsCase {
        client,
        server,
        tls12: false,
        duplex: false,
        client_closes_first: false,
        server_polled_first: false,
        segs: vec![],
        sched: [EndSched::default(), EndSched::default()],
        raw_close: true,
    };
    // known finding: native poll_close reports success while the flush of the close_notify is still Pending
    let mut k1 = base(side(Backend::Native, false), side(Backend::Rustls, false));
    k1.sched[0] = EndSched { buffering: true, read: vec![], write: vec![], flush: pend1.clone() };
    // known finding: AsyncStream::poll_flush completes a stale flush future (here under a rustls client)
    let mut k2 = base(side(Backend::Rustls, true), side(Backend::Native, false));
    k2.sched[0] = EndSched { buffering: false, read: vec![], write: vec![], flush: pend1.clone() };
    // known finding: futures-rustls forgets a handshake flush that returned Pending
    let mut k3 = base(side(Backend::Native, false), side(Backend::Rustls, false));
    k3.sched[1] = EndSched { buffering: true, read: vec![], write: vec![Ev { limit: 0, pend: 0 }], flush: pend1 };
    // golden cases (must pass): every back-end pair over byte-by-byte, flush-gated transports
    let tiny = |buffering| EndSched { buffering, read: vec![Ev { limit: 1, pend: 2 }, Ev { limit: 7, pend: 0 }], write: vec![Ev { limit: 1, pend: 1 }, Ev { limit: 3, pend: 3 }], flush: vec![] };
    let segs = vec![
        Seg { from_client: true, len: 5000, chunk: 300, flush_each: false, rbuf: 100 },
        Seg { from_client: false, len: 70, chunk: 0, flush_each: true, rbuf: 65535 },
        Seg { from_client: false, len: 0, chunk: 0, flush_each: false, rbuf: 0 },
        Seg { from_client: true, len: 20000, chunk: 65535, flush_each: false, rbuf: 40000 },
    ];
    let mut out = vec![("known-native-close-flush-pending", k1), ("known-asyncstream-stale-flush", k2), ("known-rustls-handshake-flush-pending", k3)];
    for (name, c, s) in [
        ("golden-native-native", Backend::Native, Backend::Native),
        ("golden-native-rustls", Backend::Native, Backend::Rustls),
        ("golden-rustls-native", Backend::Rustls, Backend::Native),
        ("golden-rustls-rustls", Backend::Rustls, Backend::Rustls),
    ] {
        let mut g = base(side(c, false), side(s, false));
        g.raw_close = false;
        g.duplex = c == s;
        g.client_closes_first = c == Backend::Native;
        g.segs = segs.clone();
        g.sched = [tiny(true), tiny(true)];
        out.push((name, g));
    }
    out
}
