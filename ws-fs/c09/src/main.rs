//! C09 — timers never fire early and always fire (DESIGN.md §3 C09).
//!
//! The harness owns the event loop (`Runtime::{enter, run, poll, poll_with, current_timeout}`), so the
//! oracles do not depend on scheduling noise:
//!
//! * never early (exact): every completion `Instant` is >= the (lower bound of the) deadline;
//! * `current_timeout()` read between two loop steps is never larger than the distance to the
//!   nearest timer known to be in the wheel, is `Some` while such a timer exists, and is `None`
//!   when no timer future is left (no residue after completions and drops);
//! * always fires (deterministic form): a wheel entry whose deadline lies before the instant read
//!   just before a `poll`/`poll_with` call must have completed its future once that call returned and
//!   every woken task / held future was polled; a pending timer future with an empty wheel can
//!   never complete;
//! * `Timeout` is `Ok` iff the inner future finished first (inner futures finish clearly before or
//!   never during the life of the timeout);
//! * interval ticks are `start + k * period` exactly, strictly increasing, and complete >= tick.
use std::{
    cell::RefCell,
    collections::BinaryHeap,
    future::Future,
    os::fd::{AsRawFd, FromRawFd, OwnedFd},
    pin::Pin,
    rc::Rc,
    sync::{
        atomic::{AtomicBool, AtomicUsize, Ordering},
        Arc, Condvar, Mutex,
    },
    task::{Context, Poll, Wake, Waker},
    time::{Duration, Instant},
};

use compio_buf::BufResult;
use compio_driver::{DriverType, ProactorBuilder};
use compio_io::AsyncRead;
use compio_runtime::{
    fd::AsyncFd,
    time::{interval, interval_at, sleep, sleep_until, timeout, timeout_at, Interval},
    JoinHandle, RuntimeBuilder,
};
use serde::{Deserialize, Serialize};
use vcore::{
    proptest::{self, collection::vec, prelude::*},
    Outcome, Part, Session,
};

// ------------------------------------------------------------------------------------------------
// case type

/// deadline class, relative to the instant of creation (`Group` is relative to the case start, so
/// that several timers share the *same* `Instant`)
#[derive(Debug, Clone, Copy, Serialize, Deserialize, PartialEq)]
pub enum Dl {
    Past(u8),
    Now,
    Group(u8),
    Near(u8),
    Far(u16),
}

pub const GROUPS_MS: [u64; 3] = [15, 25, 60];

#[derive(Debug, Clone, Copy, Serialize, Deserialize, PartialEq)]
pub enum Inner {
    /// ready at the first poll
    Ready,
    /// never finishes
    Pending,
    /// a sleep that ends `lead_ms` (30..=100) before the outer deadline
    SleepShort { lead_ms: u8 },
    /// a sleep that ends 5 s after the outer deadline
    SleepLong,
    /// a one-byte pipe read, fed by the harness `lead_ms` (30..=100) before the outer deadline
    PipeFed { lead_ms: u8 },
    /// a pipe read that is never fed
    PipeNeverFed,
}

#[derive(Debug, Clone, Copy, Serialize, Deserialize, PartialEq)]
pub enum Kind {
    Sleep,
    SleepUntil,
    Timeout(Inner),
    TimeoutAt(Inner),
    /// `interval(period)`: first tick at once
    Interval {
        period_ms: u8,
        ticks: u8,
        /// attempt j (counted over the whole life of the interval) awaits `tick()` through
        /// `timeout(cuts[j] ms, ..)` when `cuts[j] > 0`: if the wait is longer, the pending `tick()`
        /// future is dropped and `tick()` is called again (before the first tick or between ticks)
        #[serde(default)]
        cuts: [u8; 4],
    },
    /// `interval_at(deadline, period)`
    IntervalAt {
        period_ms: u8,
        ticks: u8,
        #[serde(default)]
        cuts: [u8; 4],
    },
}

#[derive(Debug, Clone, Serialize, Deserialize, PartialEq)]
pub struct TimerSpec {
    /// created this many ms after the case start (list order breaks ties)
    pub create_ms: u8,
    pub kind: Kind,
    pub dl: Dl,
    /// hosted in a spawned task (polled by `Runtime::run`) or held and polled by the harness loop
    pub task: bool,
    /// dropped this many ms after its creation unless it finished before
    pub drop_after_ms: Option<u16>,
    /// the harness deliberately does not step the runtime across the deadline (for a timeout with a
    /// finishing inner future: from just before the inner future finishes until after the outer
    /// deadline, so that both are ready at the same poll — the inner still finished first)
    #[serde(default)]
    pub stall: bool,
}

#[derive(Debug, Clone, Copy, Serialize, Deserialize, PartialEq)]
pub enum Noise {
    /// another thread writes a byte into a pipe a runtime task is reading
    PipeByte,
    /// another thread wakes a runtime task
    CrossWake,
}

#[derive(Debug, Clone, Serialize, Deserialize, PartialEq)]
pub struct TimerCase {
    pub poll_driver: bool,
    /// index into [1, 2, 61]
    pub event_interval: u8,
    pub timers: Vec<TimerSpec>,
    pub noise: Vec<(u16, Noise)>,
}

// ------------------------------------------------------------------------------------------------
// records written by the timer futures themselves

#[derive(Debug, Clone)]
enum Rec {
    /// a sleep finished / a timeout resolved
    Done { i: usize, at: Instant, ok: Option<bool>, data: Option<u8> },
    /// the inner sleep of a timeout finished
    InnerDone { i: usize, at: Instant },
    Tick { i: usize, k: usize, tick: Instant, at: Instant },
    IntervalDone { i: usize },
    /// a `timeout(cut, interval.tick())` elapsed: the pending tick future was dropped
    Cut { i: usize, at: Instant, lower: Instant, before_first: bool },
}

type Log = Rc<RefCell<Vec<Rec>>>;

/// a wheel entry the harness knows about
#[derive(Debug, Clone)]
struct Entry {
    owner: usize,
    /// true for the inner sleep of a timeout
    inner: bool,
    lower: Instant,
    upper: Instant,
    /// the deadline was still in the future after the creating call returned => certainly inserted
    definite: bool,
    alive: bool,
}

struct FlagWaker {
    flag: AtomicBool,
    inner: Waker,
    wakes: AtomicUsize,
}

impl Wake for FlagWaker {
    fn wake(self: Arc<Self>) {
        self.wake_by_ref()
    }

    fn wake_by_ref(self: &Arc<Self>) {
        self.flag.store(true, Ordering::SeqCst);
        self.wakes.fetch_add(1, Ordering::Relaxed);
        self.inner.wake_by_ref();
    }
}

enum Host {
    NotCreated,
    Held { fut: Pin<Box<dyn Future<Output = ()>>>, flag: Arc<FlagWaker> },
    Task(JoinHandle<()>),
    /// completed or dropped
    Gone,
}

struct TimerState {
    host: Host,
    created: Option<Instant>,
    /// lower bound of the outer deadline (exact for the absolute kinds)
    deadline: Option<Instant>,
    absolute: bool,
    done: bool,
    dropped: bool,
    dropped_before_expiry: bool,
    /// effective inner after the by-construction adjustment
    inner: Option<Inner>,
    fed_at: Option<Instant>,
    feed_fd: Option<OwnedFd>,
    /// interval bookkeeping
    period: Option<Duration>,
    first_tick: Option<Instant>,
    last_tick: Option<Instant>,
    ticks_seen: usize,
}

#[derive(PartialEq, Eq)]
struct Ev {
    at: Instant,
    seq: usize,
    what: EvKind,
}

#[derive(PartialEq, Eq, Clone, Copy)]
enum EvKind {
    Create(usize),
    Drop(usize),
    Feed(usize),
    /// do not step the runtime until this instant
    Stall(Instant),
}

impl Ord for Ev {
    fn cmp(&self, o: &Self) -> std::cmp::Ordering {
        // min-heap on (at, seq)
        o.at.cmp(&self.at).then(o.seq.cmp(&self.seq))
    }
}

impl PartialOrd for Ev {
    fn partial_cmp(&self, o: &Self) -> Option<std::cmp::Ordering> {
        Some(self.cmp(o))
    }
}

/// cross-thread wake target: a future that completes a round each time the noise thread bumps the
/// counter and wakes the registered waker
#[derive(Default)]
struct CrossSlot {
    waker: Mutex<Option<Waker>>,
    bumps: AtomicUsize,
}

struct CrossWait {
    slot: Arc<CrossSlot>,
    seen: usize,
}

impl Future for CrossWait {
    type Output = usize;

    fn poll(mut self: Pin<&mut Self>, cx: &mut Context<'_>) -> Poll<usize> {
        *self.slot.waker.lock().unwrap() = Some(cx.waker().clone());
        let b = self.slot.bumps.load(Ordering::SeqCst);
        if b > self.seen {
            self.seen = b;
            Poll::Ready(b)
        } else {
            Poll::Pending
        }
    }
}

fn mk_pipe() -> std::io::Result<(OwnedFd, OwnedFd)> {
    let mut fds = [0i32; 2];
    if unsafe { libc::pipe2(fds.as_mut_ptr(), libc::O_CLOEXEC | libc::O_NONBLOCK) } < 0 {
        return Err(std::io::Error::last_os_error());
    }
    Ok(unsafe { (OwnedFd::from_raw_fd(fds[0]), OwnedFd::from_raw_fd(fds[1])) })
}

fn write_byte(fd: &OwnedFd, b: u8) -> bool {
    unsafe { libc::write(fd.as_raw_fd(), (&b as *const u8).cast(), 1) == 1 }
}

/// A violation that can only be produced by the code under test, whatever the machine does.
fn hard(sig: &str, detail: String) -> Verdict {
    Verdict::Violation { soft: false, sig: sig.into(), detail }
}

/// A violation that rests on a wall-clock margin; reported only when it reproduces on every re-run.
fn soft(sig: &str, detail: String) -> Verdict {
    Verdict::Violation { soft: true, sig: sig.into(), detail }
}

enum Verdict {
    Pass { nontrivial: bool, labels: Vec<String> },
    Violation { soft: bool, sig: String, detail: String },
    Inconclusive(String),
}

fn ms(x: u64) -> Duration {
    Duration::from_millis(x)
}

const MARGIN: Duration = Duration::from_millis(20);

struct NoiseCtl {
    stop: Mutex<bool>,
    cv: Condvar,
    rescued: AtomicBool,
}

fn run_once(case: &TimerCase) -> Verdict {
    let driver = if case.poll_driver { DriverType::Poll } else { DriverType::IoUring };
    let mut pb = ProactorBuilder::new();
    pb.driver_type(driver);
    let ei = [1usize, 2, 61][case.event_interval as usize % 3];
    let rt = match RuntimeBuilder::new().with_proactor(pb).event_interval(ei).build() {
        Ok(rt) => rt,
        Err(e) => return Verdict::Inconclusive(format!("runtime build: {e}")),
    };
    let n = case.timers.len();
    let log: Log = Rc::new(RefCell::new(vec![]));

    // noise plumbing
    let (noise_rx, noise_tx) = match mk_pipe() {
        Ok(p) => p,
        Err(e) => return Verdict::Inconclusive(format!("pipe: {e}")),
    };
    let cross = Arc::new(CrossSlot::default());
    let ctl = Arc::new(NoiseCtl { stop: Mutex::new(false), cv: Condvar::new(), rescued: AtomicBool::new(false) });
    let noise_seen = Rc::new(RefCell::new((0usize, 0usize)));

    let verdict = rt.enter(|| {
        let base = Instant::now();
        // planned end of the case: last creation + far deadline + slack
        let planned_end = base + ms(40 + 600 + 100);
        let rescue_at = planned_end + ms(2500);

        // background tasks without timers
        let mut bg: Vec<JoinHandle<()>> = vec![];
        match AsyncFd::new(noise_rx) {
            Ok(afd) => {
                let seen = noise_seen.clone();
                bg.push(rt.spawn(async move {
                    loop {
                        let BufResult(r, _) = (&afd).read(Vec::with_capacity(8)).await;
                        match r {
                            Ok(0) | Err(_) => break,
                            Ok(k) => seen.borrow_mut().0 += k,
                        }
                    }
                }));
            }
            Err(e) => return Verdict::Inconclusive(format!("attach: {e}")),
        }
        {
            let slot = cross.clone();
            let seen = noise_seen.clone();
            bg.push(rt.spawn(async move {
                let mut last = 0;
                loop {
                    last = CrossWait { slot: slot.clone(), seen: last }.await;
                    seen.borrow_mut().1 = last;
                }
            }));
        }
        // noise thread (joined before the case returns)
        let noise_thread = {
            let mut sched: Vec<(u64, Noise)> = case.noise.iter().map(|&(at, k)| (at as u64 % 700, k)).collect();
            sched.sort_by_key(|x| x.0);
            let ctl = ctl.clone();
            let cross = cross.clone();
            let waker = rt.waker();
            std::thread::Builder::new()
                .name("c09-noise".into())
                .spawn(move || {
                    let wait_until = |t: Instant| -> bool {
                        // returns true when asked to stop
                        let mut g = ctl.stop.lock().unwrap();
                        loop {
                            if *g {
                                return true;
                            }
                            let now = Instant::now();
                            if now >= t {
                                return false;
                            }
                            g = ctl.cv.wait_timeout(g, t - now).unwrap().0;
                        }
                    };
                    for (at, k) in sched {
                        if wait_until(base + ms(at)) {
                            return;
                        }
                        match k {
                            Noise::PipeByte => {
                                write_byte(&noise_tx, 1);
                            }
                            Noise::CrossWake => {
                                cross.bumps.fetch_add(1, Ordering::SeqCst);
                                let w = cross.waker.lock().unwrap().clone();
                                if let Some(w) = w {
                                    w.wake();
                                }
                            }
                        }
                    }
                    // rescue stimulus: redundant if the runtime honours its own timeouts
                    if !wait_until(rescue_at) {
                        ctl.rescued.store(true, Ordering::SeqCst);
                        waker.wake();
                    }
                })
                .expect("spawn noise thread")
        };

        let mut st: Vec<TimerState> = (0..n)
            .map(|_| TimerState {
                host: Host::NotCreated,
                created: None,
                deadline: None,
                absolute: false,
                done: false,
                dropped: false,
                dropped_before_expiry: false,
                inner: None,
                fed_at: None,
                feed_fd: None,
                period: None,
                first_tick: None,
                last_tick: None,
                ticks_seen: 0,
            })
            .collect();
        let mut entries: Vec<Entry> = vec![];
        let mut heap = BinaryHeap::new();
        let mut seq = 0usize;
        for (i, t) in case.timers.iter().enumerate() {
            heap.push(Ev { at: base + ms(t.create_ms as u64 % 41), seq, what: EvKind::Create(i) });
            seq += 1;
        }
        let mut labels: Vec<String> = vec![format!("driver:{}", if case.poll_driver { "poll" } else { "iour" }), format!("event_interval:{ei}")];
        let mut log_read = 0usize;
        let mut last_poll_pre: Option<Instant> = None;
        let mut verdict: Option<Verdict> = None;
        let mut max_late = Duration::ZERO;
        let mut loops = 0usize;

        'outer: loop {
            loops += 1;
            // ---- 1. due events
            loop {
                let now = Instant::now();
                match heap.peek() {
                    Some(ev) if ev.at <= now => {}
                    _ => break,
                }
                let ev = heap.pop().unwrap();
                match ev.what {
                    EvKind::Create(i) => {
                        let spec = &case.timers[i];
                        let t_before = Instant::now();
                        // requested deadline
                        let (want, dur): (Instant, Duration) = match spec.dl {
                            Dl::Past(x) => (t_before.checked_sub(ms(x as u64 % 50 + 1)).unwrap_or(t_before), Duration::ZERO),
                            Dl::Now => (t_before, Duration::ZERO),
                            Dl::Group(g) => {
                                let d = base + ms(GROUPS_MS[g as usize % 3]);
                                (d, d.saturating_duration_since(t_before))
                            }
                            Dl::Near(x) => (t_before + ms(x as u64 % 30 + 1), ms(x as u64 % 30 + 1)),
                            Dl::Far(x) => (t_before + ms(200 + x as u64 % 401), ms(200 + x as u64 % 401)),
                        };
                        let lead_ok = |lead: u8| want.saturating_duration_since(t_before) >= ms(lead as u64 % 71 + 30) + ms(10);
                        let lead_of = |lead: u8| ms(lead as u64 % 71 + 30);
                        // by-construction adjustment of the inner future (no ties are generated)
                        let adjust = |inner: Inner| -> Inner {
                            let future = want > t_before + ms(1);
                            match inner {
                                Inner::Ready if !future => Inner::Pending,
                                Inner::SleepShort { lead_ms } if !lead_ok(lead_ms) => {
                                    if future {
                                        Inner::Ready
                                    } else {
                                        Inner::Pending
                                    }
                                }
                                Inner::PipeFed { lead_ms } if !lead_ok(lead_ms) => Inner::PipeNeverFed,
                                x => x,
                            }
                        };
                        let log2 = log.clone();
                        let mut new_entries: Vec<Entry> = vec![];
                        let fut: Pin<Box<dyn Future<Output = ()>>> = match spec.kind {
                            Kind::Sleep => {
                                let s = sleep(dur);
                                let t_after = Instant::now();
                                st[i].deadline = Some(t_before + dur);
                                new_entries.push(Entry { owner: i, inner: false, lower: t_before + dur, upper: t_after + dur, definite: false, alive: true });
                                labels.push("kind:sleep".into());
                                Box::pin(async move {
                                    s.await;
                                    let at = Instant::now();
                                    log2.borrow_mut().push(Rec::Done { i, at, ok: None, data: None });
                                })
                            }
                            Kind::SleepUntil => {
                                let s = sleep_until(want);
                                st[i].deadline = Some(want);
                                st[i].absolute = true;
                                new_entries.push(Entry { owner: i, inner: false, lower: want, upper: want, definite: false, alive: true });
                                labels.push("kind:sleep_until".into());
                                Box::pin(async move {
                                    s.await;
                                    let at = Instant::now();
                                    log2.borrow_mut().push(Rec::Done { i, at, ok: None, data: None });
                                })
                            }
                            Kind::Timeout(inner) | Kind::TimeoutAt(inner) => {
                                let absolute = matches!(spec.kind, Kind::TimeoutAt(_));
                                let inner = adjust(inner);
                                st[i].inner = Some(inner);
                                labels.push(format!("kind:{}", if absolute { "timeout_at" } else { "timeout" }));
                                labels.push(format!("inner:{}", inner_name(inner)));
                                // the inner future (its own sleep is created eagerly, so the wheel content is known)
                                let log3 = log.clone();
                                let inner_fut: Pin<Box<dyn Future<Output = u8>>> = match inner {
                                    Inner::Ready => Box::pin(async { 7u8 }),
                                    Inner::Pending => Box::pin(std::future::pending::<u8>()),
                                    Inner::SleepShort { lead_ms } => {
                                        let d = want - lead_of(lead_ms);
                                        let s = sleep_until(d);
                                        new_entries.push(Entry { owner: i, inner: true, lower: d, upper: d, definite: false, alive: true });
                                        Box::pin(async move {
                                            s.await;
                                            log3.borrow_mut().push(Rec::InnerDone { i, at: Instant::now() });
                                            1u8
                                        })
                                    }
                                    Inner::SleepLong => {
                                        let d = want + ms(5000);
                                        let s = sleep_until(d);
                                        new_entries.push(Entry { owner: i, inner: true, lower: d, upper: d, definite: false, alive: true });
                                        Box::pin(async move {
                                            s.await;
                                            log3.borrow_mut().push(Rec::InnerDone { i, at: Instant::now() });
                                            2u8
                                        })
                                    }
                                    Inner::PipeFed { .. } | Inner::PipeNeverFed => {
                                        let (rx, tx) = match mk_pipe() {
                                            Ok(p) => p,
                                            Err(e) => {
                                                verdict = Some(Verdict::Inconclusive(format!("pipe: {e}")));
                                                break 'outer;
                                            }
                                        };
                                        let afd = match AsyncFd::new(rx) {
                                            Ok(a) => a,
                                            Err(e) => {
                                                verdict = Some(Verdict::Inconclusive(format!("attach: {e}")));
                                                break 'outer;
                                            }
                                        };
                                        st[i].feed_fd = Some(tx);
                                        if let Inner::PipeFed { lead_ms } = inner {
                                            heap.push(Ev { at: want - lead_of(lead_ms), seq, what: EvKind::Feed(i) });
                                            seq += 1;
                                        }
                                        Box::pin(async move {
                                            let BufResult(r, b) = (&afd).read(Vec::with_capacity(4)).await;
                                            match r {
                                                Ok(1) => b[0],
                                                _ => 0xEE,
                                            }
                                        })
                                    }
                                };
                                let (t, lower, upper) = if absolute {
                                    st[i].absolute = true;
                                    (timeout_at(want, inner_fut), want, want)
                                } else {
                                    let t = timeout(dur, inner_fut);
                                    let t_after = Instant::now();
                                    (t, t_before + dur, t_after + dur)
                                };
                                st[i].deadline = Some(lower);
                                new_entries.push(Entry { owner: i, inner: false, lower, upper, definite: false, alive: true });
                                Box::pin(async move {
                                    let r = t.await;
                                    let at = Instant::now();
                                    log2.borrow_mut().push(Rec::Done { i, at, ok: Some(r.is_ok()), data: r.ok() });
                                })
                            }
                            Kind::Interval { period_ms, ticks, cuts } | Kind::IntervalAt { period_ms, ticks, cuts } => {
                                let period = ms(period_ms as u64 % 14 + 2);
                                let ticks = ticks as usize % 4 + 1;
                                let absolute = matches!(spec.kind, Kind::IntervalAt { .. });
                                let mut iv: Interval = if absolute { interval_at(want, period) } else { interval(period) };
                                st[i].period = Some(period);
                                if absolute {
                                    st[i].absolute = true;
                                    st[i].deadline = Some(want);
                                } else {
                                    st[i].deadline = Some(t_before);
                                }
                                labels.push(format!("kind:{}", if absolute { "interval_at" } else { "interval" }));
                                Box::pin(async move {
                                    let mut attempt = 0usize;
                                    for k in 0..ticks {
                                        let tick = loop {
                                            let c = cuts.get(attempt).copied().unwrap_or(0) % 21;
                                            attempt += 1;
                                            if c == 0 {
                                                break iv.tick().await;
                                            }
                                            let t0 = Instant::now();
                                            match timeout(ms(c as u64), iv.tick()).await {
                                                Ok(t) => break t,
                                                Err(_) => log2.borrow_mut().push(Rec::Cut { i, at: Instant::now(), lower: t0 + ms(c as u64), before_first: k == 0 }),
                                            }
                                        };
                                        let at = Instant::now();
                                        log2.borrow_mut().push(Rec::Tick { i, k, tick, at });
                                    }
                                    log2.borrow_mut().push(Rec::IntervalDone { i });
                                })
                            }
                        };
                        let t_after = Instant::now();
                        for mut e in new_entries {
                            e.definite = e.upper > t_after;
                            entries.push(e);
                        }
                        st[i].created = Some(t_before);
                        labels.push(
                            match spec.dl {
                                Dl::Past(_) => "dl:past",
                                Dl::Now => "dl:now",
                                Dl::Group(_) => "dl:group",
                                Dl::Near(_) => "dl:near",
                                Dl::Far(_) => "dl:far",
                            }
                            .into(),
                        );
                        st[i].host = if spec.task {
                            labels.push("host:task".into());
                            Host::Task(rt.spawn(fut))
                        } else {
                            labels.push("host:held".into());
                            let flag = Arc::new(FlagWaker { flag: AtomicBool::new(true), inner: rt.waker(), wakes: AtomicUsize::new(0) });
                            Host::Held { fut, flag }
                        };
                        if let Some(d) = spec.drop_after_ms {
                            heap.push(Ev { at: t_before + ms(d as u64 % 301), seq, what: EvKind::Drop(i) });
                            seq += 1;
                        }
                        if spec.stall && want > t_before + ms(4) {
                            let from = match st[i].inner {
                                Some(Inner::SleepShort { lead_ms }) => (want - lead_of(lead_ms)).checked_sub(ms(3)).unwrap_or(want),
                                // same instant as the feed event, later sequence number: feed first
                                Some(Inner::PipeFed { lead_ms }) => want - lead_of(lead_ms),
                                _ => want - ms(3),
                            };
                            heap.push(Ev { at: from, seq, what: EvKind::Stall(want + ms(10)) });
                            seq += 1;
                            labels.push("stall-across-deadline".into());
                        }
                    }
                    EvKind::Drop(i) => {
                        if !st[i].done && !st[i].dropped {
                            st[i].dropped = true;
                            let now = Instant::now();
                            if st[i].period.is_some() || st[i].deadline.map(|d| d > now).unwrap_or(false) {
                                st[i].dropped_before_expiry = true;
                                labels.push("dropped-before-expiry".into());
                            } else {
                                labels.push("dropped-after-deadline".into());
                            }
                            // dropping a held future / the JoinHandle of a task (cancels it)
                            st[i].host = Host::Gone;
                            for e in entries.iter_mut().filter(|e| e.owner == i) {
                                e.alive = false;
                            }
                        }
                    }
                    EvKind::Stall(until) => {
                        let now = Instant::now();
                        if until > now {
                            std::thread::sleep(until - now);
                        }
                    }
                    EvKind::Feed(i) => {
                        if !st[i].done && !st[i].dropped {
                            if let Some(fd) = &st[i].feed_fd {
                                if write_byte(fd, 0x5A) {
                                    st[i].fed_at = Some(Instant::now());
                                }
                            }
                        }
                    }
                }
            }

            // ---- 2./3. poll what was woken until nothing is runnable any more
            let mut rounds = 0;
            loop {
                rounds += 1;
                let mut progressed = false;
                for s in st.iter_mut() {
                    let mut finished = false;
                    if let Host::Held { fut, flag } = &mut s.host {
                        if flag.flag.swap(false, Ordering::SeqCst) {
                            progressed = true;
                            let w = Waker::from(flag.clone());
                            let mut cx = Context::from_waker(&w);
                            if fut.as_mut().poll(&mut cx).is_ready() {
                                finished = true;
                            }
                        }
                    }
                    if finished {
                        s.host = Host::Gone;
                    }
                }
                let mut guard = 0;
                while rt.run() {
                    guard += 1;
                    if guard > 10_000 {
                        verdict = Some(Verdict::Inconclusive("executor never became idle".into()));
                        break 'outer;
                    }
                }
                if !progressed || rounds > 1000 {
                    break;
                }
            }
            for s in st.iter_mut() {
                let fin = matches!(&s.host, Host::Task(h) if h.is_finished());
                if fin {
                    s.host = Host::Gone;
                }
            }

            // ---- 4. new records: the exact oracles
            let t_after_run = Instant::now();
            let recs: Vec<Rec> = log.borrow()[log_read..].to_vec();
            log_read += recs.len();
            for r in recs {
                match r {
                    Rec::Done { i, at, ok, data } => {
                        let s = &mut st[i];
                        if s.dropped {
                            verdict = Some(hard("C09/completed-after-drop", format!("timer #{i} {:?} recorded a completion after it was dropped", case.timers[i])));
                            break 'outer;
                        }
                        s.done = true;
                        for e in entries.iter_mut().filter(|e| e.owner == i) {
                            e.alive = false;
                        }
                        let d = s.deadline.unwrap();
                        if ok != Some(true) && at < d {
                            verdict = Some(hard(
                                &format!("C09/fired-early/{}", kind_name(&case.timers[i].kind)),
                                format!("timer #{i} {:?} completed {:?} before its deadline", case.timers[i], d - at),
                            ));
                            break 'outer;
                        }
                        if ok != Some(true) {
                            max_late = max_late.max(at - d);
                        }
                        if let Some(inner) = s.inner {
                            let got_ok = ok == Some(true);
                            let expect: Option<bool> = match inner {
                                Inner::Ready | Inner::SleepShort { .. } => Some(true),
                                Inner::Pending | Inner::PipeNeverFed => Some(false),
                                Inner::SleepLong => {
                                    if got_ok && at >= d + ms(4000) {
                                        verdict = Some(Verdict::Inconclusive("harness stalled for seconds".into()));
                                        break 'outer;
                                    }
                                    Some(false)
                                }
                                Inner::PipeFed { .. } => match s.fed_at {
                                    Some(f) if f + MARGIN <= d => Some(true),
                                    Some(_) => {
                                        labels.push("feed-too-late-to-judge".into());
                                        None
                                    }
                                    None => Some(false),
                                },
                            };
                            let is_soft = matches!(inner, Inner::PipeFed { .. });
                            if let Some(e) = expect {
                                if e != got_ok {
                                    let sig = format!("C09/timeout/{}/inner-{}", if got_ok { "ok-but-inner-unfinished" } else { "elapsed-but-inner-finished-first" }, inner_name(inner));
                                    let detail = format!(
                                        "timer #{i} {:?}: result {}, deadline {:?} after creation, resolved {:?} after creation, fed {:?}",
                                        case.timers[i],
                                        if got_ok { "Ok" } else { "Err(Elapsed)" },
                                        d.saturating_duration_since(s.created.unwrap()),
                                        at - s.created.unwrap(),
                                        s.fed_at.map(|f| f - s.created.unwrap())
                                    );
                                    verdict = Some(if is_soft { soft(&sig, detail) } else { hard(&sig, detail) });
                                    break 'outer;
                                }
                                labels.push(format!("timeout:{}", if got_ok { "ok" } else { "elapsed" }));
                            }
                            if got_ok {
                                let want = match inner {
                                    Inner::Ready => Some(7u8),
                                    Inner::SleepShort { .. } => Some(1),
                                    Inner::PipeFed { .. } => Some(0x5A),
                                    _ => None,
                                };
                                if want.is_some() && data != want {
                                    verdict = Some(hard("C09/timeout/wrong-inner-value", format!("timer #{i}: Ok({data:?}) but the inner future yields {want:?}")));
                                    break 'outer;
                                }
                            }
                        }
                    }
                    Rec::InnerDone { i, at } => {
                        if let Some(e) = entries.iter_mut().find(|e| e.owner == i && e.inner) {
                            e.alive = false;
                            if at < e.lower {
                                verdict = Some(hard("C09/fired-early/inner-sleep", format!("inner sleep of timer #{i} completed {:?} early", e.lower - at)));
                                break 'outer;
                            }
                        }
                    }
                    Rec::Tick { i, k, tick, at } => {
                        let s = &mut st[i];
                        let period = s.period.unwrap();
                        if k == 0 {
                            s.first_tick = Some(tick);
                            if s.absolute && tick != s.deadline.unwrap() {
                                verdict = Some(hard("C09/interval/first-tick-not-start", format!("interval #{i}: first tick differs from the start instant")));
                                break 'outer;
                            }
                            if !s.absolute && (tick < s.created.unwrap() || tick > at) {
                                verdict = Some(hard("C09/interval/first-tick-not-start", format!("interval #{i}: first tick is not the creation instant")));
                                break 'outer;
                            }
                        } else {
                            let start = s.first_tick.unwrap();
                            let off = tick.saturating_duration_since(start);
                            if tick <= s.last_tick.unwrap() || off.as_nanos() % period.as_nanos() != 0 {
                                verdict = Some(hard(
                                    "C09/interval/tick-not-aligned",
                                    format!("interval #{i} {:?}: tick {k} is start + {off:?}, period {period:?} (remainder {} ns)", case.timers[i], off.as_nanos() % period.as_nanos()),
                                ));
                                break 'outer;
                            }
                        }
                        if at < tick {
                            verdict = Some(hard("C09/fired-early/interval", format!("interval #{i} tick {k} completed {:?} before the tick instant", tick - at)));
                            break 'outer;
                        }
                        max_late = max_late.max(at - tick);
                        s.last_tick = Some(tick);
                        s.ticks_seen = k + 1;
                        labels.push("interval-tick".into());
                    }
                    Rec::IntervalDone { i } => {
                        st[i].done = true;
                    }
                    Rec::Cut { i, at, lower, before_first } => {
                        if at < lower {
                            verdict = Some(hard("C09/fired-early/timeout", format!("timeout around a tick of interval #{i} elapsed {:?} early", lower - at)));
                            break 'outer;
                        }
                        labels.push(if before_first { "pending-first-tick-dropped-then-tick-again" } else { "pending-later-tick-dropped-then-tick-again" }.into());
                    }
                }
            }

            // ---- 5. wheel oracles (state is quiescent: everything woken has been polled)
            let unresolved: Vec<usize> = (0..n).filter(|&i| st[i].created.is_some() && !st[i].done && !st[i].dropped).collect();
            // 5a. always fires: deadline before the instant read before the last poll => completed by now
            if let Some(tp) = last_poll_pre {
                if let Some(e) = entries.iter().find(|e| e.alive && e.definite && e.upper <= tp) {
                    let i = e.owner;
                    verdict = Some(hard(
                        &format!("C09/not-fired/{}", if e.inner { "inner-sleep".into() } else { kind_name(&case.timers[i].kind) }),
                        format!(
                            "timer #{i} {:?}: deadline passed {:?} before the last poll started, the poll returned and every woken future was polled, but the timer has not completed (current_timeout = {:?})",
                            case.timers[i],
                            tp - e.upper,
                            rt.current_timeout()
                        ),
                    ));
                    break 'outer;
                }
            }
            let t0 = Instant::now();
            let ct = rt.current_timeout();
            // 5b. a pending timer future needs a wheel entry
            if ct.is_none() && !unresolved.is_empty() {
                let i = unresolved[0];
                verdict = Some(hard(
                    &format!("C09/pending-with-empty-wheel/{}", kind_name(&case.timers[i].kind)),
                    format!("timer #{i} {:?} is still pending but current_timeout() is None: nothing will ever wake it", case.timers[i]),
                ));
                break 'outer;
            }
            // 5c. never longer than the nearest known deadline
            if let Some(e) = entries.iter().filter(|e| e.alive && e.definite).min_by_key(|e| e.upper) {
                let bound = e.upper.saturating_duration_since(t0);
                match ct {
                    Some(c) if c <= bound => {}
                    _ => {
                        verdict = Some(hard(
                            "C09/current_timeout-exceeds-nearest-deadline",
                            format!("current_timeout() = {ct:?} but timer #{} {:?} is due in {bound:?}", e.owner, case.timers[e.owner]),
                        ));
                        break 'outer;
                    }
                }
            }
            // 5d. no residue: no timer future left => empty wheel
            let all_created = heap.iter().all(|e| !matches!(e.what, EvKind::Create(_)));
            if unresolved.is_empty() && ct.is_some() {
                verdict = Some(hard(
                    "C09/residue-after-completion-or-drop",
                    format!("no timer future is alive (all finished or dropped) but current_timeout() = {ct:?}"),
                ));
                break 'outer;
            }
            if unresolved.is_empty() && all_created {
                break;
            }
            if t_after_run > rescue_at + ms(3000) || loops > 200_000 {
                verdict = Some(Verdict::Inconclusive("case overran its time budget".into()));
                break;
            }
            if ctl.rescued.load(Ordering::SeqCst) {
                // the runtime slept until another thread woke it although it knew an earlier deadline
                if let Some(e) = entries.iter().find(|e| e.alive && e.definite && e.upper + ms(1500) <= t0) {
                    verdict = Some(soft(
                        "C09/overslept-until-rescued",
                        format!("timer #{} was overdue by {:?} and the loop only continued after the rescue wake-up", e.owner, t0 - e.upper),
                    ));
                } else {
                    verdict = Some(Verdict::Inconclusive("rescue wake-up fired without an overdue timer".into()));
                }
                break;
            }

            // ---- 6. wait: the runtime's own `poll()` when nothing is scheduled by the harness, else
            // poll_with(min(current_timeout, time to the next harness event))
            let next_ev = heap.peek().map(|e| e.at);
            let pre = Instant::now();
            match next_ev {
                None => {
                    last_poll_pre = Some(pre);
                    rt.poll();
                }
                Some(at) => {
                    let to_ev = at.saturating_duration_since(pre);
                    let t = match ct {
                        Some(c) => c.min(to_ev),
                        None => to_ev,
                    };
                    last_poll_pre = Some(pre);
                    rt.poll_with(Some(t));
                }
            }
        }

        // ---- shutdown: stop the noise thread, drop everything, the wheel must be empty
        *ctl.stop.lock().unwrap() = true;
        ctl.cv.notify_all();
        let _ = noise_thread.join();
        for s in st.iter_mut() {
            s.host = Host::Gone;
        }
        drop(bg);
        let mut guard = 0;
        while rt.run() && guard < 10_000 {
            guard += 1;
        }
        if verdict.is_none() {
            if let Some(ct) = rt.current_timeout() {
                verdict = Some(hard("C09/residue-after-completion-or-drop", format!("everything finished or dropped, current_timeout() = {ct:?}")));
            }
        }
        match verdict {
            Some(v) => v,
            None => {
                // non-triviality: >= 3 timers, one dropped before expiry, one pair of equal deadlines
                let mut abs: Vec<Instant> = (0..n).filter(|&i| st[i].absolute).filter_map(|i| st[i].deadline).collect();
                abs.sort();
                let equal_pair = abs.windows(2).any(|w| w[0] == w[1]);
                let dropped = st.iter().any(|s| s.dropped_before_expiry);
                if equal_pair {
                    labels.push("equal-deadlines".into());
                }
                if max_late > ms(250) {
                    labels.push("late>250ms(load)".into());
                } else if max_late > ms(50) {
                    labels.push("late>50ms(load)".into());
                }
                let (pb, cw) = *noise_seen.borrow();
                if pb > 0 {
                    labels.push("noise:pipe-completions".into());
                }
                if cw > 0 {
                    labels.push("noise:cross-thread-wakes".into());
                }
                labels.push(format!("timers:{}", if n >= 8 { "8-12" } else if n >= 3 { "3-7" } else { "1-2" }));
                labels.sort();
                labels.dedup();
                Verdict::Pass { nontrivial: n >= 3 && equal_pair && dropped, labels }
            }
        }
    });
    drop(rt);
    verdict
}

fn kind_name(k: &Kind) -> String {
    match k {
        Kind::Sleep => "sleep",
        Kind::SleepUntil => "sleep_until",
        Kind::Timeout(_) => "timeout",
        Kind::TimeoutAt(_) => "timeout_at",
        Kind::Interval { .. } => "interval",
        Kind::IntervalAt { .. } => "interval_at",
    }
    .into()
}

fn inner_name(i: Inner) -> &'static str {
    match i {
        Inner::Ready => "ready",
        Inner::Pending => "pending",
        Inner::SleepShort { .. } => "sleep-short",
        Inner::SleepLong => "sleep-long",
        Inner::PipeFed { .. } => "pipe-fed",
        Inner::PipeNeverFed => "pipe-never-fed",
    }
}

fn run_case(case: &TimerCase) -> Outcome {
    // a verdict that depends on a wall-clock margin is re-measured; it counts only when it reproduces
    let mut soft_hits: Vec<(String, String)> = vec![];
    for attempt in 0..3 {
        match run_once(case) {
            Verdict::Pass { nontrivial, labels } => {
                if attempt > 0 {
                    return Outcome::inconclusive(format!("not reproduced on re-measurement: {}", soft_hits[0].0));
                }
                return Outcome::pass_owned(nontrivial, labels);
            }
            Verdict::Violation { soft: false, sig, detail } => return Outcome::violation(sig, detail),
            Verdict::Violation { soft: true, sig, detail } => soft_hits.push((sig, detail)),
            Verdict::Inconclusive(why) => return Outcome::inconclusive(why),
        }
    }
    let (sig, detail) = soft_hits.pop().unwrap();
    if soft_hits.iter().all(|(s, _)| *s == sig) {
        Outcome::violation(sig, format!("{detail} (reproduced on 3 of 3 runs)"))
    } else {
        Outcome::inconclusive("soft verdicts differ between re-measurements")
    }
}

// ------------------------------------------------------------------------------------------------
// generators

fn inner_strategy() -> impl Strategy<Value = Inner> + Clone {
    prop_oneof![
        3 => Just(Inner::Ready),
        3 => Just(Inner::Pending),
        3 => (0u8..=70).prop_map(|lead_ms| Inner::SleepShort { lead_ms }),
        2 => Just(Inner::SleepLong),
        2 => (0u8..=70).prop_map(|lead_ms| Inner::PipeFed { lead_ms }),
        1 => Just(Inner::PipeNeverFed),
    ]
}

fn cuts_strategy() -> impl Strategy<Value = [u8; 4]> + Clone {
    proptest::array::uniform4(prop_oneof![3 => Just(0u8), 2 => 1u8..=20])
}

fn kind_strategy() -> impl Strategy<Value = Kind> + Clone {
    prop_oneof![
        3 => Just(Kind::Sleep),
        5 => Just(Kind::SleepUntil),
        2 => inner_strategy().prop_map(Kind::Timeout),
        4 => inner_strategy().prop_map(Kind::TimeoutAt),
        1 => (0u8..14, 0u8..4, cuts_strategy()).prop_map(|(period_ms, ticks, cuts)| Kind::Interval { period_ms, ticks, cuts }),
        3 => (0u8..14, 0u8..4, cuts_strategy()).prop_map(|(period_ms, ticks, cuts)| Kind::IntervalAt { period_ms, ticks, cuts }),
    ]
}

fn dl_strategy() -> impl Strategy<Value = Dl> + Clone {
    prop_oneof![
        1 => (0u8..50).prop_map(Dl::Past),
        1 => Just(Dl::Now),
        7 => prop_oneof![4 => Just(0u8), 2 => Just(1u8), 1 => Just(2u8)].prop_map(Dl::Group),
        4 => (0u8..30).prop_map(Dl::Near),
        2 => (0u16..=400).prop_map(Dl::Far),
    ]
}

fn timer_strategy() -> impl Strategy<Value = TimerSpec> + Clone {
    (
        prop_oneof![3 => Just(0u8), 3 => 0u8..=12, 1 => 13u8..=40],
        kind_strategy(),
        dl_strategy(),
        any::<bool>(),
        proptest::option::weighted(0.4, prop_oneof![2 => Just(0u16), 4 => 1u16..=20, 2 => 100u16..=300]),
        proptest::bool::weighted(0.2),
    )
        .prop_map(|(create_ms, kind, dl, task, drop_after_ms, stall)| {
            // inner futures that need room before the deadline get a far deadline (by construction)
            let needs_room = matches!(kind, Kind::Timeout(Inner::SleepShort { .. } | Inner::PipeFed { .. }) | Kind::TimeoutAt(Inner::SleepShort { .. } | Inner::PipeFed { .. }));
            let dl = match dl {
                Dl::Far(_) => dl,
                Dl::Group(g) if needs_room => Dl::Far(g as u16 * 97 + create_ms as u16),
                Dl::Near(x) | Dl::Past(x) if needs_room => Dl::Far(x as u16 * 7),
                Dl::Now if needs_room => Dl::Far(0),
                d => d,
            };
            TimerSpec { create_ms, kind, dl, task, drop_after_ms, stall }
        })
}

fn case_strategy() -> impl Strategy<Value = TimerCase> + Clone {
    (
        any::<bool>(),
        0u8..3,
        prop_oneof![1 => vec(timer_strategy(), 1..=2), 6 => vec(timer_strategy(), 3..=12)],
        vec((0u16..650, prop_oneof![Just(Noise::PipeByte), Just(Noise::CrossWake)]), 0..=8),
    )
        .prop_map(|(poll_driver, event_interval, timers, noise)| TimerCase { poll_driver, event_interval, timers, noise })
        // 60 % of the cases get, by construction, two timers on the same group instant (absolute kinds) and
        // one timer that is dropped well before its far deadline
        .prop_flat_map(|c| (Just(c), proptest::bool::weighted(0.6), 0u8..3, 0u16..=400, 1u16..=20))
        .prop_map(|(mut c, force, g, far, drop_ms)| {
            if force && c.timers.len() >= 3 {
                for t in c.timers.iter_mut().take(2) {
                    t.dl = Dl::Group(g);
                    t.kind = match t.kind {
                        Kind::Sleep => Kind::SleepUntil,
                        Kind::Timeout(Inner::SleepShort { .. } | Inner::PipeFed { .. }) | Kind::TimeoutAt(Inner::SleepShort { .. } | Inner::PipeFed { .. }) => Kind::TimeoutAt(Inner::Pending),
                        Kind::Timeout(i) => Kind::TimeoutAt(i),
                        Kind::Interval { period_ms, ticks, cuts } => Kind::IntervalAt { period_ms, ticks, cuts },
                        k => k,
                    };
                    t.create_ms = t.create_ms.min(10);
                }
                let t = &mut c.timers[2];
                if !matches!(t.dl, Dl::Far(_)) {
                    t.dl = Dl::Far(far);
                }
                t.drop_after_ms = Some(drop_ms);
            }
            c
        })
}

fn main() {
    let mut s = Session::new();
    let mut p = Part::new(
        "C09",
        "timers",
        "case = driver (io_uring | polling) x event_interval (1,2,61) x 1-12 timers {kind: sleep, sleep_until, timeout(inner), timeout_at(inner), \
         interval, interval_at (period 2-15 ms, 1-4 ticks; each of the first four tick() attempts optionally awaited through timeout(1-20 ms): a pending tick() future is dropped and tick() is called again, before the first tick and between ticks); deadline class: past, now, one of three shared group instants (equal deadlines), \
         1-30 ms, 200-600 ms; created 0-40 ms after the start; hosted in a spawned task or held by the harness loop; optionally dropped \
         0/1-20/100-300 ms after creation; optionally the harness does not step the runtime across the deadline (stall); inner futures: ready, pending, sleep ending 30-100 ms before the deadline, sleep ending 5 s after it, \
         pipe read fed 30-100 ms before the deadline, pipe read never fed} x 0-8 noise events from another thread (pipe byte for a reader task, \
         cross-thread task wake-up). Non-trivial = at least 3 timers, at least one dropped before its deadline and one pair of equal deadlines; \
         distinct = distinct serialised case.",
    );
    p.quick_cases = 800;
    p.thorough_cases = 32_000;
    p.threads = 16;
    p.max_shrink_iters = 120;
    p.replay_repeats = 3;
    p.assumptions = vec![
        "Instant is the monotonic clock; a completion instant is read by the timer future itself right after its await returns",
        "timeout ties are not generated: inner futures are ready at once, finish >= 30 ms before the deadline, or never finish while the timeout lives",
        "lateness is never a violation: the always-fires oracle is the deterministic loop-step form (see notes/C09.md)",
    ];
    let t = |create_ms, kind, dl, task, drop_after_ms| TimerSpec { create_ms, kind, dl, task, drop_after_ms, stall: false };
    let ts = |create_ms, kind, dl, task| TimerSpec { create_ms, kind, dl, task, drop_after_ms: None, stall: true };
    p.regressions = vec![
        (
            "equal-group-drop-and-far",
            TimerCase {
                poll_driver: false,
                event_interval: 2,
                timers: vec![
                    t(0, Kind::SleepUntil, Dl::Group(0), true, None),
                    t(0, Kind::SleepUntil, Dl::Group(0), false, None),
                    t(1, Kind::TimeoutAt(Inner::Pending), Dl::Group(0), true, None),
                    t(0, Kind::SleepUntil, Dl::Far(0), true, Some(5)),
                    t(2, Kind::Sleep, Dl::Near(4), false, None),
                    t(0, Kind::SleepUntil, Dl::Far(100), false, None),
                    t(3, Kind::IntervalAt { period_ms: 3, ticks: 3, cuts: [0; 4] }, Dl::Group(1), true, None),
                    t(3, Kind::TimeoutAt(Inner::SleepShort { lead_ms: 10 }), Dl::Far(50), true, None),
                    t(4, Kind::Timeout(Inner::PipeFed { lead_ms: 20 }), Dl::Far(20), false, None),
                    t(4, Kind::TimeoutAt(Inner::SleepLong), Dl::Near(10), true, None),
                    t(5, Kind::SleepUntil, Dl::Past(3), true, None),
                    t(5, Kind::Interval { period_ms: 0, ticks: 3, cuts: [0, 1, 0, 1] }, Dl::Now, false, Some(250)),
                ],
                noise: vec![(3, Noise::PipeByte), (16, Noise::CrossWake), (120, Noise::PipeByte), (300, Noise::CrossWake)],
            },
        ),
        (
            "inner-finishes-first-but-polled-after-the-deadline",
            TimerCase {
                poll_driver: false,
                event_interval: 2,
                timers: vec![
                    ts(0, Kind::TimeoutAt(Inner::SleepShort { lead_ms: 5 }), Dl::Far(0), true),
                    ts(0, Kind::Timeout(Inner::SleepShort { lead_ms: 20 }), Dl::Far(150), false),
                    ts(1, Kind::TimeoutAt(Inner::PipeFed { lead_ms: 10 }), Dl::Far(300), true),
                    ts(1, Kind::SleepUntil, Dl::Group(1), false),
                    t(1, Kind::SleepUntil, Dl::Group(1), true, Some(2)),
                ],
                noise: vec![(210, Noise::CrossWake)],
            },
        ),
        (
            "interval-tick-future-dropped-while-pending",
            TimerCase {
                poll_driver: true,
                event_interval: 1,
                timers: vec![
                    // first tick abandoned twice before `start`, then awaited
                    t(0, Kind::IntervalAt { period_ms: 1, ticks: 2, cuts: [5, 7, 0, 0] }, Dl::Far(0), true, None),
                    t(0, Kind::IntervalAt { period_ms: 9, ticks: 3, cuts: [3, 0, 4, 2] }, Dl::Group(2), false, None),
                    // abandoned between later ticks
                    t(1, Kind::Interval { period_ms: 12, ticks: 3, cuts: [0, 3, 0, 5] }, Dl::Now, true, None),
                ],
                noise: vec![(30, Noise::CrossWake)],
            },
        ),
        (
            "near-behind-far-poll-driver",
            TimerCase {
                poll_driver: true,
                event_interval: 0,
                timers: vec![
                    t(0, Kind::SleepUntil, Dl::Far(400), true, None),
                    t(0, Kind::SleepUntil, Dl::Near(5), true, None),
                    t(0, Kind::Sleep, Dl::Near(5), false, None),
                    t(1, Kind::SleepUntil, Dl::Group(2), true, Some(1)),
                    t(1, Kind::SleepUntil, Dl::Group(2), false, None),
                ],
                noise: vec![],
            },
        ),
    ];
    s.run_part(p, case_strategy(), run_case);
    s.finish();
}
