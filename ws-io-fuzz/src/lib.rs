//! anchor crate, see Cargo.toml
