#!/usr/bin/env python3
"""Derive /tmp/seed/confirm_table.json entries (demo path, demo command, checks) from the demo.rs headers."""
import glob, json, os, re
CHECKS = {"C01": [["ws-driver","drvlab",["C01"]],["ws-driver","rtlab",["C01"]]], "C02": [["ws-driver","drvlab",["C02"]]], "C03": [["ws-sched","c03a",[]],["ws-proto","c03b",[]]],
 "C04": [["ws-exec","c04a",[]],["ws-sched","c04b",[]]], "C05": [["ws-driver","drvlab",["C05"]],["ws-driver","rtlab",[]]], "C06": [["ws-sched","c06b",[]],["ws-net","c06a",[]]],
 "C07": [["ws-net","c07",[]]], "C08": [["ws-fs","c08",[]]], "C09": [["ws-fs","c09",[]]], "C10": [["ws-buf","c10",[]]], "C11": [["ws-io","c11",[]]], "C12": [["ws-io","c12",[]]],
 "C13": [["ws-frame","c13",[]]], "C14": [["ws-net","c14",[]]], "C15": [["ws-proto","c15",[]]], "C16": [["ws-proto","c16",[]]], "C17": [["ws-pool","c17",[]]], "C18": [["ws-pool","c18",[]]],
 "C19": [["ws-pool","c19",[]]], "C20": [["ws-proc","c20",[]]]}
t = {}
for d in sorted(glob.glob("/tmp/seed/out-C*/[ab]")):
    pid, var = d.split("/")[-2][4:], d.split("/")[-1]
    demo = os.path.join(d, "demo.rs")
    if not os.path.exists(demo) or not os.path.exists(os.path.join(d, "patch.diff")):
        continue
    head = "".join(open(demo).readlines()[:25])
    readme = open(os.path.join(d, "README.md")).read() if os.path.exists(os.path.join(d, "README.md")) else ""
    m = re.search(r"(compio[-\w]*/(?:tests|examples|benches)/[\w\-]+\.rs)", head) or re.search(r"(compio[-\w]*/(?:tests|examples)/[\w\-]+\.rs)", readme)
    c = re.search(r"(cargo (?:nextest run|test)[^`\n]*)", head) or re.search(r"(cargo (?:nextest run|test)[^`\n]*(?:seed|demo|c\d\d)[^`\n]*)", readme)
    if not m or not c:
        print("cannot derive", d)
        continue
    cmd = re.split(r"\s+\((?:or|nextest)", c.group(1))[0].strip().rstrip(".").rstrip("\\").strip()
    if "--no-fail-fast" not in cmd and "nextest" in cmd:
        cmd += " --no-fail-fast"
    t[f"{pid}-{var}"] = [m.group(1), cmd, CHECKS[pid]]
OVERRIDE = {
 "C06-a": "cargo nextest run --workspace --offline -E 'package(compio-driver) & binary(seed_c06a_double_close)' --no-fail-fast",
 "C06-b": "cargo nextest run --workspace --offline -E 'package(compio-driver) & binary(seed_c06b_accept_multi_cancel)' --no-fail-fast",
 "C04-b": "RUSTFLAGS='--cfg loom' CARGO_TARGET_DIR=/tmp/seed/tgt-C04-loom cargo test --offline -p compio-executor --test seed_c04_b",
}
for k, c in OVERRIDE.items():
    if k in t:
        t[k][1] = c
json.dump(t, open("/tmp/seed/confirm_table.json", "w"), indent=1)
for k, v in t.items():
    print(k, v[0], "|", v[1][:110])
