//! Fixed TLS material from /verif/fixtures/tls (P-256, SAN localhost, 2020–2120); nothing is
//! generated at run time.  Connectors/acceptors for both back-ends are built once per process.

use std::{path::Path, sync::Arc, sync::OnceLock};

use compio_tls::{TlsAcceptor, TlsConnector};
use rustls::pki_types::{pem::PemObject, CertificateDer, PrivateKeyDer};
use serde::{Deserialize, Serialize};

#[derive(Debug, Clone, Copy, Serialize, Deserialize, PartialEq, Eq)]
pub enum Backend {
    Native,
    Rustls,
}

impl Backend {
    pub fn name(self) -> &'static str {
        match self {
            Backend::Native => "native",
            Backend::Rustls => "rustls",
        }
    }
}

fn read(dir: &Path, name: &str) -> Vec<u8> {
    let p = dir.join("fixtures").join("tls").join(name);
    match std::fs::read(&p) {
        Ok(b) => b,
        Err(e) => {
            eprintln!("c15: cannot read fixture {}: {e}", p.display());
            std::process::exit(2);
        }
    }
}

struct Pems {
    ca: Vec<u8>,
    leaf: Vec<u8>,
    key: Vec<u8>,
}

static PEMS: OnceLock<Pems> = OnceLock::new();

fn pems(verif_dir: &Path) -> &'static Pems {
    PEMS.get_or_init(|| Pems { ca: read(verif_dir, "ca.cert.pem"), leaf: read(verif_dir, "leaf.cert.pem"), key: read(verif_dir, "leaf.key.pem") })
}

static V12: [&rustls::SupportedProtocolVersion; 1] = [&rustls::version::TLS12];
// "not forced to 1.2" = best available: native-tls acceptors (OpenSSL mozilla_intermediate v4) stop at TLS 1.2
static VBEST: [&rustls::SupportedProtocolVersion; 2] = [&rustls::version::TLS13, &rustls::version::TLS12];

fn versions(tls12: bool) -> &'static [&'static rustls::SupportedProtocolVersion] {
    if tls12 {
        &V12
    } else {
        &VBEST
    }
}

/// A fresh connector for one case: no session cache or ticket state is shared between cases; only
/// the PEM bytes are read once per process.
pub fn connector(verif_dir: &Path, b: Backend, tls12: bool) -> TlsConnector {
    let p = pems(verif_dir);
    match b {
        // native-tls (OpenSSL): CA via add_root_certificate, full verification stays on
        Backend::Native => {
            let mut b = native_tls::TlsConnector::builder();
            b.add_root_certificate(native_tls::Certificate::from_pem(&p.ca).expect("fixture CA"));
            if tls12 {
                b.max_protocol_version(Some(native_tls::Protocol::Tlsv12));
            }
            TlsConnector::from(b.build().expect("native connector"))
        }
        // rustls (ring): custom root store holding only the fixture CA
        Backend::Rustls => {
            let mut store = rustls::RootCertStore::empty();
            store.add(CertificateDer::from_pem_slice(&p.ca).expect("ca pem")).expect("add fixture CA");
            let cfg = rustls::ClientConfig::builder_with_provider(Arc::new(rustls::crypto::ring::default_provider()))
                .with_protocol_versions(versions(tls12))
                .expect("versions")
                .with_root_certificates(store)
                .with_no_client_auth();
            TlsConnector::from(Arc::new(cfg))
        }
    }
}

pub fn acceptor(verif_dir: &Path, b: Backend, tls12: bool) -> TlsAcceptor {
    let p = pems(verif_dir);
    match b {
        // identity straight from the PEM pair (PKCS#8 key)
        Backend::Native => {
            let id = native_tls::Identity::from_pkcs8(&p.leaf, &p.key).expect("native identity from fixture PEMs");
            let mut b = native_tls::TlsAcceptor::builder(id);
            if tls12 {
                b.max_protocol_version(Some(native_tls::Protocol::Tlsv12));
            }
            TlsAcceptor::from(b.build().expect("native acceptor"))
        }
        Backend::Rustls => {
            let cfg = rustls::ServerConfig::builder_with_provider(Arc::new(rustls::crypto::ring::default_provider()))
                .with_protocol_versions(versions(tls12))
                .expect("versions")
                .with_no_client_auth()
                .with_single_cert(vec![CertificateDer::from_pem_slice(&p.leaf).expect("leaf pem")], PrivateKeyDer::from_pem_slice(&p.key).expect("key pem"))
                .expect("rustls server config");
            TlsAcceptor::from(Arc::new(cfg))
        }
    }
}
