//! C10, vectored half: `IoVectoredBuf(Mut)` containers, `slice(begin)`, `slice_mut(begin)`,
//! `owned_iter()` in the roles their callers use them in.  Address-based oracle as in `main.rs`.
use compio_buf::{IntoInner, IoBuf, IoBufExt, IoBufMut, IoBufMutExt, IoVectoredBuf, IoVectoredBufMut, SetLenExt};
use serde::{Deserialize, Serialize};
use vcore::{
    ensure, mono_range,
    proptest::{collection::vec, prelude::*},
    Outcome, Part, Session,
};

#[derive(Debug, Clone, Copy, Serialize, Deserialize, PartialEq)]
pub enum Container {
    VecOfVec,
    Array3,
    Tuple3,
    ArrayVec4,
    SmallVec2,
}

#[derive(Debug, Clone, Serialize, Deserialize)]
pub enum VView {
    /// fill the container itself (as `readv` does)
    Root,
    /// `IoVectoredBuf::slice(begin)` — skip `begin` initialised bytes (any member state)
    Slice { begin: u16 },
    /// `IoVectoredBufMut::slice_mut(begin)` — skip `begin` bytes of capacity
    SliceMut { begin: u16 },
    /// `owned_iter()` as `loop_read_vectored` uses it: skip members without capacity, fill once
    IterRead,
    /// `owned_iter()` as `loop_write_vectored` uses it: skip empty members, expose the first non-empty
    IterWrite,
    /// `owned_iter()` filling every member completely before `next()`, the last one partially
    IterFillAll { last: u16 },
}

#[derive(Debug, Clone, Serialize, Deserialize)]
pub struct VecCase {
    pub container: Container,
    /// (len, extra capacity) per member
    pub members: Vec<(u8, u8)>,
    /// `Some(l)`: put the container into the canonical "filled in order" state with `l` (raw draw)
    /// initialised bytes in total — the state every fill protocol of the vectored API presumes
    pub canonical: Option<u16>,
    pub view: VView,
    /// raw draws for successive fills of k bytes recorded with `advance_vec_to` / `advance_to`
    pub fills: Vec<u16>,
}

const PRE: fn(usize, usize) -> u8 = |m, i| ((m * 29 + i * 5 + 1) & 0x7f) as u8;

fn build_member(m: usize, len: usize, cap: usize) -> Vec<u8> {
    let mut v: Vec<u8> = Vec::with_capacity(cap);
    // Vec::with_capacity may over-allocate in theory; we only ever use `cap` of it via capacity()
    let c = v.capacity();
    unsafe {
        for i in 0..c {
            v.as_mut_ptr().add(i).write(PRE(m, i));
        }
        v.set_len(len.min(c));
    }
    v
}

pub trait Cont: IoVectoredBufMut + Sized {
    fn build(members: Vec<Vec<u8>>) -> Self;
    fn members(&self) -> Vec<&Vec<u8>>;
    fn arity(n: usize) -> usize;
}

impl Cont for Vec<Vec<u8>> {
    fn build(m: Vec<Vec<u8>>) -> Self {
        m
    }

    fn members(&self) -> Vec<&Vec<u8>> {
        self.iter().collect()
    }

    fn arity(n: usize) -> usize {
        n
    }
}

impl Cont for [Vec<u8>; 3] {
    fn build(m: Vec<Vec<u8>>) -> Self {
        let mut it = m.into_iter();
        [it.next().unwrap(), it.next().unwrap(), it.next().unwrap()]
    }

    fn members(&self) -> Vec<&Vec<u8>> {
        self.iter().collect()
    }

    fn arity(_: usize) -> usize {
        3
    }
}

impl Cont for (Vec<u8>, (Vec<u8>, (Vec<u8>,))) {
    fn build(m: Vec<Vec<u8>>) -> Self {
        let mut it = m.into_iter();
        (it.next().unwrap(), (it.next().unwrap(), (it.next().unwrap(),)))
    }

    fn members(&self) -> Vec<&Vec<u8>> {
        vec![&self.0, &self.1 .0, &self.1 .1 .0]
    }

    fn arity(_: usize) -> usize {
        3
    }
}

impl Cont for arrayvec::ArrayVec<Vec<u8>, 4> {
    fn build(m: Vec<Vec<u8>>) -> Self {
        m.into_iter().collect()
    }

    fn members(&self) -> Vec<&Vec<u8>> {
        self.iter().collect()
    }

    fn arity(n: usize) -> usize {
        n.min(4)
    }
}

impl Cont for smallvec::SmallVec<[Vec<u8>; 2]> {
    fn build(m: Vec<Vec<u8>>) -> Self {
        m.into_iter().collect()
    }

    fn members(&self) -> Vec<&Vec<u8>> {
        self.iter().collect()
    }

    fn arity(n: usize) -> usize {
        n
    }
}

#[derive(Clone)]
struct Mem {
    base: usize,
    cap: usize,
    len: usize,
    shadow: Vec<u8>,
}

fn addrs_init<T: IoVectoredBuf>(b: &T) -> Vec<(usize, usize)> {
    b.iter_slice().map(|s| (s.as_ptr() as usize, s.len())).collect()
}

fn addrs_uninit<T: IoVectoredBufMut>(b: &mut T) -> Vec<(usize, usize)> {
    b.iter_uninit_slice().map(|s| (s.as_ptr() as usize, s.len())).collect()
}

/// flatten address ranges into the list of byte addresses (small sizes only)
fn flat(r: &[(usize, usize)]) -> Vec<usize> {
    r.iter().flat_map(|&(p, l)| (0..l).map(move |i| p + i)).collect()
}

fn fill_through<T: IoVectoredBufMut>(b: &mut T, data: &[u8]) {
    let mut it = data.iter();
    'outer: for s in b.iter_uninit_slice() {
        for x in s.iter_mut() {
            match it.next() {
                Some(d) => {
                    x.write(*d);
                }
                None => break 'outer,
            }
        }
    }
}

fn fill_data(fi: usize, k: usize) -> Vec<u8> {
    (0..k).map(|j| 0x80 | ((fi * 41 + j * 3 + 2) & 0x7f) as u8).collect()
}

/// Judge the container against the model after unwrapping.
fn check_final<T: Cont>(c: &T, mems: &[Mem], what: &str) -> Option<Outcome> {
    let ms = c.members();
    if ms.len() != mems.len() {
        return Some(Outcome::violation("C10/vec/member-count", format!("{what}: member count changed")));
    }
    for (i, (m, model)) in ms.iter().zip(mems.iter()).enumerate() {
        if m.capacity() != model.cap || (model.cap > 0 && m.as_ptr() as usize != model.base) {
            return Some(Outcome::violation("C10/vec/member-moved", format!("{what}: member {i} moved or resized")));
        }
        if m.len() != model.len {
            return Some(Outcome::violation(
                format!("C10/vec/member-len/{what}"),
                format!("{what}: member {i} reports len {} but the recorded fills make it {} (cap {})", m.len(), model.len, model.cap),
            ));
        }
        let phys = unsafe { std::slice::from_raw_parts(model.base as *const u8, model.cap) };
        if phys != &model.shadow[..] {
            let at = phys.iter().zip(model.shadow.iter()).position(|(a, b)| a != b).unwrap();
            return Some(Outcome::violation(
                format!("C10/vec/content/{what}"),
                format!("{what}: member {i} byte {at} is {:#x}, expected {:#x}", phys[at], model.shadow[at]),
            ));
        }
    }
    None
}

/// apply "k bytes written starting at capacity offset `from`" to the model (canonical state)
fn model_fill(mems: &mut [Mem], from: usize, data: &[u8]) {
    let mut off = from;
    let mut rest = data;
    let mut acc = 0;
    for m in mems.iter_mut() {
        let lo = acc;
        let hi = acc + m.cap;
        acc = hi;
        if rest.is_empty() {
            break;
        }
        if off >= hi {
            continue;
        }
        let start = off - lo;
        let n = rest.len().min(m.cap - start);
        m.shadow[start..start + n].copy_from_slice(&rest[..n]);
        m.len = m.len.max(start + n);
        rest = &rest[n..];
        off += n;
    }
}

fn run_generic<T: Cont>(case: &VecCase) -> Outcome {
    let n = T::arity(case.members.len());
    let mut spec: Vec<(usize, usize)> = case.members.iter().map(|&(l, e)| ((l % 13) as usize, (l % 13) as usize + (e % 13) as usize)).collect();
    spec.resize(n, (0, 0));
    let total_cap: usize = spec.iter().map(|s| s.1).sum();
    let canonical_l = case.canonical.map(|raw| mono_range(raw, 0, total_cap));
    if let Some(l) = canonical_l {
        let mut rest = l;
        for s in spec.iter_mut() {
            s.0 = rest.min(s.1);
            rest -= s.0;
        }
    }
    let members: Vec<Vec<u8>> = spec.iter().enumerate().map(|(i, &(len, cap))| build_member(i, len, cap)).collect();
    // Vec::with_capacity gives exactly `cap` for u8 in practice; rely on the real capacity anyway
    let mut mems: Vec<Mem> = members
        .iter()
        .enumerate()
        .map(|(i, v)| Mem { base: v.as_ptr() as usize, cap: v.capacity(), len: v.len(), shadow: (0..v.capacity()).map(|j| PRE(i, j)).collect() })
        .collect();
    let total_cap: usize = mems.iter().map(|m| m.cap).sum();
    let total_len: usize = mems.iter().map(|m| m.len).sum();
    let mut c = T::build(members);
    let mut labels: Vec<String> = vec![format!("cont:{:?}", case.container)];

    // A. the container itself
    let init = addrs_init(&c);
    let un = addrs_uninit(&mut c);
    let want_init: Vec<(usize, usize)> = mems.iter().map(|m| (m.base, m.len)).collect();
    let want_un: Vec<(usize, usize)> = mems.iter().map(|m| (m.base, m.cap)).collect();
    ensure!(flat(&init) == flat(&want_init) && init.len() == mems.len(), "C10/vec/root-iter_slice", "container iter_slice {:?} != members {:?}", init, want_init);
    ensure!(flat(&un) == flat(&want_un) && un.len() == mems.len(), "C10/vec/root-iter_uninit_slice", "container iter_uninit_slice {:?} != members {:?}", un, want_un);
    ensure!(c.total_len() == total_len, "C10/vec/total_len", "total_len {} != {}", c.total_len(), total_len);
    ensure!(c.total_capacity() == total_cap, "C10/vec/total_capacity", "total_capacity {} != {}", c.total_capacity(), total_cap);

    let mut nontrivial = false;
    match case.view {
        VView::Root => {
            labels.push("view:root".into());
            if let Some(_) = canonical_l {
                for (fi, &raw) in case.fills.iter().enumerate() {
                    let k = mono_range(raw, 0, total_cap);
                    let d = fill_data(fi, k);
                    fill_through(&mut c, &d);
                    unsafe { c.advance_vec_to(k) };
                    model_fill(&mut mems, 0, &d);
                    if let Some(o) = check_final(&c, &mems, "root") {
                        return o;
                    }
                    nontrivial |= k > 0 && mems.len() >= 2;
                }
            }
        }
        VView::Slice { begin } => {
            labels.push("view:slice".into());
            let begin = mono_range(begin, 0, total_len);
            let v = c.slice(begin);
            let got = flat(&addrs_init(&v));
            let want: Vec<usize> = flat(&want_init).into_iter().skip(begin).collect();
            ensure!(got == want, "C10/vec/slice-window", "slice({begin}).iter_slice covers {} bytes at the wrong addresses (expected {} bytes)", got.len(), want.len());
            ensure!(v.total_len() == total_len - begin, "C10/vec/slice-total_len", "slice({begin}).total_len {} != {}", v.total_len(), total_len - begin);
            ensure!(v.begin() == begin, "C10/vec/slice-begin", "begin() mismatch");
            c = v.into_inner();
            nontrivial = begin > 0 && mems.iter().filter(|m| m.len > 0).count() >= 2;
        }
        VView::SliceMut { begin } => {
            labels.push("view:slice_mut".into());
            // `begin` counts capacity; the bytes before it are the ones already filled, so it is
            // drawn inside the initialised prefix of the canonical state (as read_vectored_exact does)
            let Some(l) = canonical_l else {
                // non-canonical members: only the writable window is defined
                let begin = mono_range(begin, 0, total_cap);
                let mut v = c.slice_mut(begin);
                let got = flat(&addrs_uninit(&mut v));
                let want: Vec<usize> = flat(&want_un).into_iter().skip(begin).collect();
                ensure!(got == want, "C10/vec/slice_mut-window", "slice_mut({begin}).iter_uninit_slice covers the wrong addresses ({} vs {} bytes)", got.len(), want.len());
                c = v.into_inner();
                if let Some(o) = check_final(&c, &mems, "slice_mut") {
                    return o;
                }
                return Outcome::pass_owned(false, labels);
            };
            let begin = mono_range(begin, 0, l);
            let mut v = c.slice_mut(begin);
            let got = flat(&addrs_uninit(&mut v));
            let want: Vec<usize> = flat(&want_un).into_iter().skip(begin).collect();
            ensure!(got == want, "C10/vec/slice_mut-window", "slice_mut({begin}).iter_uninit_slice covers the wrong addresses ({} vs {} bytes)", got.len(), want.len());
            let mut cur_begin = begin;
            for (fi, &raw) in case.fills.iter().enumerate() {
                // initialised part is a prefix of the writable part, member by member
                let i = addrs_init(&v);
                let u = addrs_uninit(&mut v);
                let fi_flat = flat(&i);
                let fu_flat = flat(&u);
                ensure!(fi_flat.len() <= fu_flat.len() && fi_flat[..] == fu_flat[..fi_flat.len()], "C10/vec/slice_mut-init-not-prefix",
                    "slice_mut({cur_begin}) before fill #{fi}: initialised bytes are not a prefix of the writable region");
                let k = mono_range(raw, 0, total_cap - cur_begin);
                let d = fill_data(fi, k);
                fill_through(&mut v, &d);
                unsafe { v.advance_vec_to(k) };
                model_fill(&mut mems, cur_begin, &d);
                // what read_vectored_exact does next: unwrap, re-slice further on
                c = v.into_inner();
                if let Some(o) = check_final(&c, &mems, "slice_mut") {
                    return o;
                }
                nontrivial |= k > 0 && cur_begin > 0;
                if k > 0 {
                    labels.push("fill:slice_mut".into());
                }
                cur_begin += k;
                v = c.slice_mut(cur_begin);
            }
            c = v.into_inner();
        }
        VView::IterRead => {
            labels.push("view:iter-read".into());
            if canonical_l.is_none() {
                return Outcome::pass_owned(false, labels);
            }
            match c.owned_iter() {
                Err(back) => {
                    ensure!(mems.is_empty(), "C10/vec/owned_iter-refused", "owned_iter refused a container with {} members", mems.len());
                    c = back;
                }
                Ok(mut it) => {
                    let mut idx = 0;
                    let res = loop {
                        if it.buf_capacity() > 0 {
                            break Ok(it);
                        }
                        match it.next() {
                            Ok(n) => {
                                it = n;
                                idx += 1;
                            }
                            Err(b) => break Err(b),
                        }
                    };
                    match res {
                        Err(back) => {
                            ensure!(mems.iter().all(|m| m.cap == 0), "C10/vec/iter-skipped-capacity", "iterator ran out although a member has capacity");
                            c = back;
                        }
                        Ok(mut it) => {
                            let first = mems.iter().position(|m| m.cap > 0).unwrap_or(usize::MAX);
                            ensure!(idx == first, "C10/vec/iter-wrong-member", "iterator stopped at member {idx}, first with capacity is {first}");
                            let (up, ul) = {
                                let s = it.as_uninit();
                                (s.as_ptr() as usize, s.len())
                            };
                            ensure!(up == mems[idx].base && ul == mems[idx].cap, "C10/vec/iter-window", "iterator window is not member {idx}'s capacity");
                            let (ip, il) = {
                                let s = it.as_init();
                                (s.as_ptr() as usize, s.len())
                            };
                            ensure!(il <= ul && (il == 0 || ip == up), "C10/vec/iter-init-not-prefix", "iterator as_init is not a prefix of as_uninit");
                            if let Some(&raw) = case.fills.first() {
                                let k = mono_range(raw, 0, ul);
                                let d = fill_data(0, k);
                                for (x, y) in it.as_uninit().iter_mut().zip(d.iter()) {
                                    x.write(*y);
                                }
                                unsafe { it.advance_to(k) };
                                let before: usize = mems[..idx].iter().map(|m| m.cap).sum();
                                model_fill(&mut mems, before, &d);
                                nontrivial = k > 0 && mems.len() >= 2;
                                if k > 0 {
                                    labels.push("fill:iter-read".into());
                                }
                            }
                            c = it.into_inner();
                        }
                    }
                }
            }
        }
        VView::IterWrite => {
            labels.push("view:iter-write".into());
            match c.owned_iter() {
                Err(back) => {
                    ensure!(mems.is_empty(), "C10/vec/owned_iter-refused", "owned_iter refused a container with {} members", mems.len());
                    c = back;
                }
                Ok(mut it) => {
                    let mut idx = 0;
                    let res = loop {
                        if it.buf_len() > 0 {
                            break Ok(it);
                        }
                        match it.next() {
                            Ok(n) => {
                                it = n;
                                idx += 1;
                            }
                            Err(b) => break Err(b),
                        }
                    };
                    match res {
                        Err(back) => {
                            ensure!(mems.iter().all(|m| m.len == 0), "C10/vec/iter-skipped-data", "iterator ran out although a member has data");
                            c = back;
                        }
                        Ok(it) => {
                            let first = mems.iter().position(|m| m.len > 0).unwrap_or(usize::MAX);
                            ensure!(idx == first, "C10/vec/iter-wrong-member", "iterator stopped at member {idx}, first with data is {first}");
                            let s = it.as_init();
                            ensure!(s.as_ptr() as usize == mems[idx].base && s.len() == mems[idx].len, "C10/vec/iter-write-window", "iterator as_init is not member {idx}'s data");
                            nontrivial = idx > 0;
                            c = it.into_inner();
                        }
                    }
                }
            }
        }
        VView::IterFillAll { last } => {
            labels.push("view:iter-fill-all".into());
            if canonical_l != Some(0) || mems.is_empty() {
                return Outcome::pass_owned(false, labels);
            }
            let mut it = match c.owned_iter() {
                Ok(it) => it,
                Err(_) => return Outcome::violation("C10/vec/owned_iter-refused", "owned_iter refused a non-empty container"),
            };
            let nm = mems.len();
            let mut before = 0;
            let mut back = None;
            for i in 0..nm {
                let cap = mems[i].cap;
                let (up, ul) = {
                    let s = it.as_uninit();
                    (s.as_ptr() as usize, s.len())
                };
                ensure!(ul == cap && (cap == 0 || up == mems[i].base), "C10/vec/iter-window", "iterator window at step {i} is not member {i}");
                let k = if i + 1 == nm { mono_range(last, 0, cap) } else { cap };
                let d = fill_data(i, k);
                for (x, y) in it.as_uninit().iter_mut().zip(d.iter()) {
                    x.write(*y);
                }
                unsafe { it.advance_to(k) };
                model_fill(&mut mems, before, &d);
                before += cap;
                if i + 1 == nm {
                    back = Some(it.into_inner());
                    break;
                }
                it = match it.next() {
                    Ok(n) => n,
                    Err(_) => return Outcome::violation("C10/vec/iter-ended-early", format!("next() ended after member {i} of {nm}")),
                };
            }
            c = back.unwrap();
            nontrivial = nm >= 2 && before > 0;
            labels.push("fill:iter-all".into());
        }
    }
    if let Some(o) = check_final(&c, &mems, "final") {
        return o;
    }
    Outcome::pass_owned(nontrivial, labels)
}

pub fn run_vec(case: &VecCase) -> Outcome {
    match case.container {
        Container::VecOfVec => run_generic::<Vec<Vec<u8>>>(case),
        Container::Array3 => run_generic::<[Vec<u8>; 3]>(case),
        Container::Tuple3 => run_generic::<(Vec<u8>, (Vec<u8>, (Vec<u8>,)))>(case),
        Container::ArrayVec4 => run_generic::<arrayvec::ArrayVec<Vec<u8>, 4>>(case),
        Container::SmallVec2 => run_generic::<smallvec::SmallVec<[Vec<u8>; 2]>>(case),
    }
}

fn strategy() -> impl Strategy<Value = VecCase> + Clone {
    let cont = prop_oneof![
        Just(Container::VecOfVec),
        Just(Container::Array3),
        Just(Container::Tuple3),
        Just(Container::ArrayVec4),
        Just(Container::SmallVec2)
    ];
    let view = prop_oneof![
        2 => Just(VView::Root),
        3 => any::<u16>().prop_map(|begin| VView::Slice { begin }),
        4 => any::<u16>().prop_map(|begin| VView::SliceMut { begin }),
        2 => Just(VView::IterRead),
        2 => Just(VView::IterWrite),
        2 => any::<u16>().prop_map(|last| VView::IterFillAll { last }),
    ];
    (cont, vec((any::<u8>(), any::<u8>()), 0..=4), prop_oneof![1 => Just(None), 2 => any::<u16>().prop_map(Some), 1 => Just(Some(0u16))], view, vec(any::<u16>(), 0..=3))
        .prop_map(|(container, members, canonical, view, fills)| VecCase { container, members, canonical, view, fills })
}

pub fn run(s: &mut Session) {
    let mut p = Part::new(
        "C10",
        "vectored",
        "case = container kind (Vec<Vec<u8>>, [Vec<u8>;3], nested tuple, ArrayVec, SmallVec) x 0-4 members (len<=cap<=24, arbitrary or in the \
         canonical filled-in-order state) x view (the container itself, slice(begin), slice_mut(begin), owned_iter in its read / write / fill-all \
         roles) x 0-3 fills recorded with advance_vec_to / advance_to. Non-trivial = a fill with k>0 through a view over >=2 members, a \
         slice_mut fill at begin>0, or a slice(begin>0) over >=2 non-empty members.",
    );
    p.quick_cases = 30_000;
    p.thorough_cases = 1_000_000;
    p.threads = 8;
    p.assumptions = vec![
        "fills through vectored buffers start from the canonical filled-in-order state that SetLen for vectored buffers (distribution by capacity) presumes",
        "VectoredBufIter is exercised in the three roles its callers use (read loop, write loop, fill every member completely before next())",
    ];
    s.run_part(p, strategy(), run_vec);
}
