//! Driver lab (DESIGN.md §2.1): generated programs of submit / feed / poll / pop / cancel / drop
//! steps against a raw `Proactor` on both drivers, judged by
//!   * C02 — result oracle (validity predicate over position-coded streams, exactly-once, woken),
//!   * C05 — cancellation oracle (prompt, honest, local),
//!   * C01 — lifetime oracle over the `compio_verif` hook trace, tracked buffers with quarantine
//!           canaries, tracked descriptors.
//! One case at a time per process (the hook sink and the fd table are process global).
mod lab;

use lab::*;
use vcore::{proptest::prelude::*, Part, Session};

fn main() {
    let mut s = Session::new();
    let which = s.args.rest.first().cloned().unwrap_or_else(|| "C02".into());
    lab::install_sink();
    match which.as_str() {
        "C02" => {
            let mut p = Part::new(
                "C02",
                "lab",
                "case = driver {io_uring, poll} x SQ/event capacity {1,2,3,8,1024} x thread-pool limit {1,2,4} x program of <=40 steps \
                 (Submit of recv/read/accept/accept-multi/poll-once/gated pool job/read-at/send-zc on 2 socketpairs, a pipe, a listener, a file; \
                 Feed n bytes; CloseEnd; Connect; OpenGate; Poll(0|20ms); Pop; PopMulti; SetWaker), closed by a quiesce phase that supplies every \
                 awaited event. Non-trivial = at least two operations pending at once and at least one of them completes; distinct = serialised case.",
            );
            p.quick_cases = 3000;
            p.thorough_cases = 60_000;
            p.crash_guard = true;
            p.max_shrink_iters = 120;
            p.assumptions = lab::assumptions();
            p.regressions = lab::regressions(Mode::C02);
            s.run_part(p, lab::strategy(Mode::C02), |c| lab::run(c, Mode::C02));
        }
        "C05" => {
            let mut p = Part::new(
                "C05",
                "lab",
                "case = driver x capacity x program as for C02 plus CancelToken / CancelTwice / Cancel(drop key) / cancel-after-complete steps on \
                 interruptible operations (socket and pipe reads, accept, poll-once), neighbours on the same descriptor left alone. Non-trivial = a \
                 cancel issued while the operation was pending and at least one other operation was pending; distinct = serialised case.",
            );
            p.quick_cases = 3000;
            p.thorough_cases = 60_000;
            p.crash_guard = true;
            p.max_shrink_iters = 120;
            p.assumptions = lab::assumptions();
            p.regressions = lab::regressions(Mode::C05);
            s.run_part(p, lab::strategy(Mode::C05), |c| lab::run(c, Mode::C05));
        }
        _ => {
            let mut p = Part::new(
                "C01",
                "lab",
                "case = driver x capacity x program as for C02 plus Cancel (drop key), CancelToken, DropHandle (the lab's descriptor clone) and an \
                 early DropDriver, after which the awaited events are still supplied (feed, connect, open gates) to provoke late kernel writes. \
                 Non-trivial = some operation was in the OS at the moment of a cancel / handle drop / driver drop and its awaited event was supplied \
                 afterwards; distinct = serialised case.",
            );
            p.quick_cases = 3000;
            p.thorough_cases = 60_000;
            p.crash_guard = true;
            p.max_shrink_iters = 120;
            p.assumptions = lab::assumptions();
            p.regressions = lab::regressions(Mode::C01);
            s.run_part(p, lab::strategy(Mode::C01), |c| lab::run(c, Mode::C01));
        }
    }
    s.finish();
}

#[allow(dead_code)]
fn _unused() -> impl Strategy<Value = u8> {
    any::<u8>()
}
