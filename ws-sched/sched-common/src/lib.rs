//! Shared helpers for the schedule-owned (shuttle) checks: run K schedules of one case under the
//! random and the PCT scheduler, catch the first failing schedule together with its replayable
//! encoding, classify it (deadlock / step bound / panic), keep stderr quiet.
//!
//! Determinism: the scheduler seeds are a pure function of the `seed` passed in (which the checks
//! store *inside the case*), so re-running `explore` on the same case reproduces the same failing
//! schedule at the same iteration; the encoded schedule in the violation detail can additionally be
//! fed to `replay_encoded`.

use std::{
    cell::RefCell,
    panic::{self, AssertUnwindSafe},
    sync::{
        atomic::{AtomicU64, Ordering},
        Arc, Once,
    },
    task::{Wake, Waker},
};

use shuttle::{
    scheduler::{PctScheduler, RandomScheduler, ReplayScheduler, Scheduler},
    Config, FailurePersistence, MaxSteps, Runner,
};
use shuttle_engine::{runtime::execution::CurrentSchedule, scheduler::serialization::serialize_schedule};

thread_local! {
    static LAST_PANIC: RefCell<Option<(String, u32, String)>> = const { RefCell::new(None) };
}
static INIT: Once = Once::new();

/// Must be called once after `vcore::Session::new()` and before any exploration.
///
/// Shuttle installs (once) a panic hook that prints to stderr on every failing schedule; with
/// shrinking that is thousands of lines.  We let it install itself, then replace the hook by a
/// quiet one that only records message and location (printed when `VERIF_VERBOSE` is set).
pub fn init() {
    INIT.call_once(|| {
        // `seed_from_env` would silently override our seeds
        std::env::remove_var("SHUTTLE_RANDOM_SEED");
        let r = Runner::new(RandomScheduler::new_from_seed(1, 1), config(10_000));
        r.run(|| {});
        let verbose = std::env::var("VERIF_VERBOSE").is_ok();
        panic::set_hook(Box::new(move |info| {
            let msg = if let Some(s) = info.payload().downcast_ref::<&str>() {
                s.to_string()
            } else if let Some(s) = info.payload().downcast_ref::<String>() {
                s.clone()
            } else {
                "<non-string panic>".into()
            };
            let (file, line) = info.location().map(|l| (l.file().to_string(), l.line())).unwrap_or_else(|| ("?".into(), 0));
            if verbose {
                eprintln!("panic at {file}:{line}: {msg}");
            }
            LAST_PANIC.with(|p| {
                let mut p = p.borrow_mut();
                // keep the *first* panic of an execution: later ones are consequences
                if p.is_none() {
                    *p = Some((file, line, msg));
                }
            });
        }));
    });
}

fn config(max_steps: usize) -> Config {
    let mut c = Config::new();
    c.failure_persistence = FailurePersistence::None;
    c.max_steps = MaxSteps::FailAfter(max_steps);
    c.silence_warnings = true;
    c.stack_size = 0x40000;
    c
}

#[derive(Debug, Clone, Copy)]
pub struct Budget {
    /// schedules under the uniformly random scheduler
    pub random: usize,
    /// schedules under PCT
    pub pct: usize,
    pub pct_depth: usize,
    /// a schedule longer than this is reported as `StepBound` (spin loop that never ends)
    pub max_steps: usize,
}

#[derive(Debug, Clone, PartialEq, Eq)]
pub enum FailKind {
    /// every unfinished thread is blocked
    Deadlock,
    /// the step bound was exceeded (a spin loop that never terminates under this schedule)
    StepBound,
    /// a thread panicked (harness oracle `fail()` or a panic / debug assertion of the code under test)
    Panic,
}

#[derive(Debug, Clone)]
pub struct Failure {
    pub kind: FailKind,
    /// "random" | "pct" | "replay"
    pub scheduler: &'static str,
    /// 0-based index of the failing schedule within that scheduler's run
    pub iteration: u64,
    /// shuttle's encoding of the failing schedule (`replay_encoded`)
    pub schedule: String,
    pub message: String,
    /// file of the first panic, shortened
    pub file: String,
}

impl Failure {
    pub fn describe(&self) -> String {
        format!(
            "{:?} under the {} scheduler at schedule #{}: {} [{}]; shuttle schedule = \"{}\"",
            self.kind, self.scheduler, self.iteration, self.message, self.file, self.schedule
        )
    }
}

#[derive(Debug, Clone)]
pub struct Explored {
    /// schedules that ran to completion (the failing one excluded)
    pub schedules: u64,
    pub failure: Option<Failure>,
}

/// Delegates to `S`; on a failing schedule the inner scheduler is leaked instead of dropped, because
/// shuttle's `RandomScheduler` prints a "failing seed" banner from its destructor (thousands of
/// lines while shrinking).  The seed is not needed: we report the encoded schedule.
struct Quiet<S>(std::mem::ManuallyDrop<S>);

impl<S> Drop for Quiet<S> {
    fn drop(&mut self) {
        if !std::thread::panicking() {
            unsafe { std::mem::ManuallyDrop::drop(&mut self.0) }
        }
    }
}

impl<S: Scheduler> Scheduler for Quiet<S> {
    fn new_execution(&mut self) -> Option<shuttle::scheduler::Schedule> {
        self.0.new_execution()
    }

    fn next_task(&mut self, runnable: &[&shuttle::scheduler::Task], current: Option<shuttle::scheduler::TaskId>, is_yielding: bool) -> Option<shuttle::scheduler::TaskId> {
        self.0.next_task(runnable, current, is_yielding)
    }

    fn next_u64(&mut self) -> u64 {
        self.0.next_u64()
    }
}

fn run_with<S: Scheduler + 'static, F: Fn() + Send + Sync + 'static>(name: &'static str, s: S, max_steps: usize, f: Arc<F>) -> (u64, Option<Failure>) {
    let s = Quiet(std::mem::ManuallyDrop::new(s));
    let started = Arc::new(AtomicU64::new(0));
    let st = started.clone();
    LAST_PANIC.with(|p| *p.borrow_mut() = None);
    let runner = Runner::new(s, config(max_steps));
    let r = panic::catch_unwind(AssertUnwindSafe(move || {
        runner.run(move || {
            st.fetch_add(1, Ordering::Relaxed);
            f()
        })
    }));
    let n = started.load(Ordering::Relaxed);
    match r {
        Ok(_) => (n, None),
        Err(payload) => {
            let schedule = serialize_schedule(&CurrentSchedule::get_schedule());
            let payload_msg = if let Some(s) = payload.downcast_ref::<&str>() {
                s.to_string()
            } else if let Some(s) = payload.downcast_ref::<String>() {
                s.clone()
            } else {
                "<non-string panic>".into()
            };
            let first = LAST_PANIC.with(|p| p.borrow_mut().take());
            let kind = if payload_msg.starts_with("deadlock!") {
                FailKind::Deadlock
            } else if payload_msg.starts_with("exceeded max_steps") {
                FailKind::StepBound
            } else {
                FailKind::Panic
            };
            let (file, message) = match (&kind, first) {
                (FailKind::Panic, Some((file, line, msg))) => (format!("{}:{line}", short_file(&file)), msg),
                _ => ("shuttle".to_string(), payload_msg),
            };
            (n.saturating_sub(1), Some(Failure { kind, scheduler: name, iteration: n.saturating_sub(1), schedule, message, file }))
        }
    }
}

/// Run `budget.random + budget.pct` schedules of `f`; stop at the first failing one.
pub fn explore<F: Fn() + Send + Sync + 'static>(seed: u64, budget: Budget, f: F) -> Explored {
    init();
    let f = Arc::new(f);
    let mut total = 0;
    if budget.random > 0 {
        let (n, fail) = run_with("random", RandomScheduler::new_from_seed(seed, budget.random), budget.max_steps, f.clone());
        total += n;
        if fail.is_some() {
            return Explored { schedules: total, failure: fail };
        }
    }
    if budget.pct > 0 {
        let s = PctScheduler::new_from_seed(seed ^ 0x9e37_79b9_7f4a_7c15, budget.pct_depth.max(1), budget.pct);
        let (n, fail) = run_with("pct", s, budget.max_steps, f);
        total += n;
        if fail.is_some() {
            return Explored { schedules: total, failure: fail };
        }
    }
    Explored { schedules: total, failure: None }
}

/// Replay one encoded schedule (as printed in a violation detail).
pub fn replay_encoded<F: Fn() + Send + Sync + 'static>(encoded: &str, max_steps: usize, f: F) -> Explored {
    init();
    let (n, failure) = run_with("replay", ReplayScheduler::new_from_encoded(encoded), max_steps, Arc::new(f));
    Explored { schedules: n, failure }
}

/// "/repo/compio-executor/src/task/mod.rs" -> "compio-executor/src/task/mod.rs"
pub fn short_file(f: &str) -> String {
    if let Some(i) = f.find("compio-") {
        f[i..].to_string()
    } else if let Some(i) = f.find("/ws-sched") {
        format!("HARNESS{}", &f[i..])
    } else if let Some(i) = f.rfind("/src/") {
        let head = &f[..i];
        let krate = head.rsplit('/').next().unwrap_or("");
        format!("{krate}{}", &f[i..])
    } else {
        f.to_string()
    }
}

/// Replace digit runs by '#' so that a signature names the shape, not the values.
pub fn strip_digits(s: &str) -> String {
    let mut out = String::new();
    let mut last_hash = false;
    for c in s.chars() {
        if c.is_ascii_digit() {
            if !last_hash {
                out.push('#');
                last_hash = true;
            }
        } else {
            out.push(c);
            last_hash = false;
        }
    }
    out.chars().take(100).collect()
}

/// Mix a 64-bit value (splitmix64) — for deriving scheduler seeds from case fields.
pub fn mix(mut x: u64) -> u64 {
    x = x.wrapping_add(0x9e37_79b9_7f4a_7c15);
    x = (x ^ (x >> 30)).wrapping_mul(0xbf58_476d_1ce4_e5b9);
    x = (x ^ (x >> 27)).wrapping_mul(0x94d0_49bb_1331_11eb);
    x ^ (x >> 31)
}

// ------------------------------------------------------------------------------------------------
// a waker a shuttle thread can block on

/// Counts wake-ups; `wait_beyond(n)` blocks the calling shuttle thread until more than `n`
/// wake-ups have been delivered.  If nobody ever wakes, the thread stays blocked and shuttle
/// reports the deadlock — which is exactly how a lost wake-up shows.
pub struct WakeCounter {
    count: shuttle::sync::Mutex<u64>,
    cv: shuttle::sync::Condvar,
}

impl WakeCounter {
    pub fn new() -> Arc<Self> {
        Arc::new(WakeCounter { count: shuttle::sync::Mutex::new(0), cv: shuttle::sync::Condvar::new() })
    }

    pub fn waker(self: &Arc<Self>) -> Waker {
        Waker::from(self.clone())
    }

    pub fn count(&self) -> u64 {
        *self.count.lock().unwrap()
    }

    pub fn wait_beyond(&self, seen: u64) -> u64 {
        let mut g = self.count.lock().unwrap();
        while *g <= seen {
            g = self.cv.wait(g).unwrap();
        }
        *g
    }
}

impl Wake for WakeCounter {
    fn wake(self: Arc<Self>) {
        self.wake_by_ref()
    }

    fn wake_by_ref(self: &Arc<Self>) {
        *self.count.lock().unwrap() += 1;
        self.cv.notify_all();
    }
}

/// A per-execution sink for oracle verdicts raised inside shuttle threads.  `fail` records the
/// first verdict and panics (which ends the execution); the interpreter reads it back after
/// `explore` returned.  Uses a std mutex that is never held across a scheduling point.
#[derive(Default)]
pub struct Verdict(std::sync::Mutex<Option<(String, String)>>);

impl Verdict {
    pub fn new() -> Arc<Self> {
        Arc::new(Verdict::default())
    }

    pub fn fail(&self, signature: &str, detail: String) -> ! {
        {
            let mut g = self.0.lock().unwrap_or_else(|e| e.into_inner());
            if g.is_none() {
                *g = Some((signature.to_string(), detail.clone()));
            }
        }
        panic!("ORACLE {signature}: {detail}");
    }

    pub fn note(&self, signature: &str, detail: String) {
        let mut g = self.0.lock().unwrap_or_else(|e| e.into_inner());
        if g.is_none() {
            *g = Some((signature.to_string(), detail));
        }
    }

    pub fn is_set(&self) -> bool {
        self.0.lock().unwrap_or_else(|e| e.into_inner()).is_some()
    }

    pub fn take(&self) -> Option<(String, String)> {
        self.0.lock().unwrap_or_else(|e| e.into_inner()).take()
    }
}

/// Number of generated cases `vcore::Session::run_part` will run for a part with these settings
/// (same arithmetic as the engine), so that checks can state the planned number of schedules.
pub fn planned_cases(args: &vcore::Args, quick: u32, thorough: u32, threads: usize) -> u64 {
    let total = args.cases.unwrap_or(match args.tier {
        vcore::Tier::Quick => quick,
        vcore::Tier::Thorough => thorough,
    });
    let (_, sn) = args.shard;
    let threads = threads.max(1) as u32;
    ((total / sn.max(1) / threads).max(1) * threads) as u64
}

/// Adds a tiny evidence part `<part>.schedules` that carries the *measured* number of shuttle
/// schedules (extra keys of a part are copied into `coverage.parts` by `./check`).  It has
/// `evaluations: 0`, so the case totals are not affected.
pub fn report_schedules(s: &mut vcore::Session, id: &str, part: &str, completed: u64, note: &str) {
    let name = format!("{part}.schedules");
    s.push_report(
        id,
        &name,
        vcore::serde_json::json!({
            "evaluations": 0,
            "distinct_nontrivial": 0,
            "rule": format!("measured: shuttle schedules run to completion by part {part} in this run ({note})"),
            "samples": [],
            "label_histogram": {},
            "schedules": completed,
            "wall_s": 0.0,
        }),
        0,
        false,
    );
}

// ------------------------------------------------------------------------------------------------
// quarantine allocator

/// A global allocator that, while switched on for the current OS thread, does **not** give freed
/// blocks back: they stay intact (and unreusable) until `release()`.  A use-after-free in the code
/// under test then reads stale-but-intact memory instead of garbage, so it cannot hang or crash
/// the harness — and the checks detect it at the logical level (e.g. the executor's waker being
/// invoked through a `Shared` that has already been freed).  This is what ASan's quarantine does;
/// ASan itself cannot follow shuttle's coroutine stacks.
pub mod quarantine {
    use std::{
        alloc::{GlobalAlloc, Layout, System},
        cell::{Cell, UnsafeCell},
    };

    pub struct Quarantine;

    struct List(UnsafeCell<Vec<(usize, usize, usize)>>);

    thread_local! {
        static ON: Cell<bool> = const { Cell::new(false) };
        static BUSY: Cell<bool> = const { Cell::new(false) };
        static HELD: List = const { List(UnsafeCell::new(Vec::new())) };
    }

    unsafe impl GlobalAlloc for Quarantine {
        unsafe fn alloc(&self, l: Layout) -> *mut u8 {
            unsafe { System.alloc(l) }
        }

        unsafe fn dealloc(&self, p: *mut u8, l: Layout) {
            let hold = ON.try_with(|on| on.get()).unwrap_or(false) && !BUSY.try_with(|b| b.replace(true)).unwrap_or(true);
            if hold {
                // growing the list may itself free its old buffer: BUSY routes that to the system
                let _ = HELD.try_with(|h| unsafe { (*h.0.get()).push((p as usize, l.size(), l.align())) });
                BUSY.with(|b| b.set(false));
            } else {
                unsafe { System.dealloc(p, l) }
            }
        }

        unsafe fn alloc_zeroed(&self, l: Layout) -> *mut u8 {
            unsafe { System.alloc_zeroed(l) }
        }

        unsafe fn realloc(&self, p: *mut u8, l: Layout, new: usize) -> *mut u8 {
            if ON.try_with(|on| on.get()).unwrap_or(false) {
                // keep the old block intact
                let nl = unsafe { Layout::from_size_align_unchecked(new, l.align()) };
                let np = unsafe { System.alloc(nl) };
                if !np.is_null() {
                    unsafe { std::ptr::copy_nonoverlapping(p, np, l.size().min(new)) };
                    unsafe { self.dealloc(p, l) };
                }
                np
            } else {
                unsafe { System.realloc(p, l, new) }
            }
        }
    }

    /// Start holding freed blocks on this OS thread (anything still held is released first).
    pub fn begin() {
        release();
        ON.with(|on| on.set(true));
    }

    /// Stop holding and give everything back; returns how many blocks had been freed more than once
    /// (each is given back once).
    pub fn release() -> usize {
        ON.with(|on| on.set(false));
        let mut held = HELD.with(|h| unsafe { std::mem::take(&mut *h.0.get()) });
        held.sort_unstable();
        let before = held.len();
        held.dedup_by_key(|x| x.0);
        let dups = before - held.len();
        for (p, size, align) in held {
            unsafe { System.dealloc(p as *mut u8, Layout::from_size_align_unchecked(size, align)) };
        }
        dups
    }
}
