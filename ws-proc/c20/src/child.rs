//! Helper mode of the C20 harness binary (`c20 --child <json>`): plain blocking std I/O only.
use std::{
    io::{Read, Write},
    time::Duration,
};

use serde::{Deserialize, Serialize};

use crate::{code, SALT_ERR, SALT_OUT};

#[derive(Debug, Clone, Copy, Serialize, Deserialize)]
pub enum ExitHow {
    Code(i32),
    Signal(i32),
    /// close stdio, then sleep until killed by the parent
    Sleep,
}

#[derive(Debug, Clone, Serialize, Deserialize)]
pub struct Spec {
    pub echo: bool,
    pub out_len: usize,
    pub err_len: usize,
    pub chunk: usize,
    pub exit: ExitHow,
    pub start_delay_ms: u64,
    pub exit_delay_ms: u64,
    pub side: String,
}

fn produce(mut w: impl Write, len: usize, chunk: usize, salt: u8) {
    let mut sent = 0;
    while sent < len {
        let n = chunk.min(len - sent);
        let buf: Vec<u8> = (sent..sent + n).map(|i| code(i, salt)).collect();
        if w.write_all(&buf).is_err() {
            std::process::exit(98);
        }
        sent += n;
    }
    let _ = w.flush();
}

pub fn main(spec: &str) -> ! {
    let spec: Spec = serde_json::from_str_compat(spec);
    if spec.start_delay_ms > 0 {
        std::thread::sleep(Duration::from_millis(spec.start_delay_ms));
    }
    let chunk = spec.chunk.max(1);
    let err_len = spec.err_len;
    let err_thread = std::thread::spawn(move || {
        // raw fd 2, unbuffered
        produce(std::io::stderr().lock(), err_len, chunk, SALT_ERR);
    });
    {
        let mut out = std::io::stdout().lock();
        if spec.echo {
            let mut inp = std::io::stdin().lock();
            let mut buf = vec![0u8; chunk];
            loop {
                match inp.read(&mut buf) {
                    Ok(0) => break,
                    Ok(n) => {
                        if out.write_all(&buf[..n]).is_err() {
                            std::process::exit(98);
                        }
                        // stdout is line buffered by std: push every chunk out so that the parent's
                        // reader sees data while it is still writing
                        let _ = out.flush();
                    }
                    Err(e) if e.kind() == std::io::ErrorKind::Interrupted => {}
                    Err(_) => std::process::exit(97),
                }
            }
        } else {
            produce(&mut out, spec.out_len, chunk, SALT_OUT);
        }
        let _ = out.flush();
    }
    let _ = err_thread.join();
    // close stdio so that the parent's readers see EOF *before* the process is gone
    unsafe {
        libc::close(0);
        libc::close(1);
        libc::close(2);
    }
    if let ExitHow::Sleep = spec.exit {
        std::thread::sleep(Duration::from_secs(300));
        unsafe { libc::_exit(96) };
    }
    if spec.exit_delay_ms > 0 {
        std::thread::sleep(Duration::from_millis(spec.exit_delay_ms));
    }
    // the marker is complete (written + renamed) before the process starts to die
    let tmp = format!("{}.tmp", spec.side);
    if std::fs::write(&tmp, b"exiting").is_err() || std::fs::rename(&tmp, &spec.side).is_err() {
        unsafe { libc::_exit(95) };
    }
    match spec.exit {
        ExitHow::Code(c) => unsafe { libc::_exit(c) },
        ExitHow::Signal(s) => unsafe {
            libc::signal(s, libc::SIG_DFL);
            let mut set: libc::sigset_t = std::mem::zeroed();
            libc::sigemptyset(&mut set);
            libc::sigaddset(&mut set, s);
            libc::sigprocmask(libc::SIG_UNBLOCK, &set, std::ptr::null_mut());
            libc::kill(libc::getpid(), s);
            // not reached for a fatal signal
            std::thread::sleep(Duration::from_secs(5));
            libc::_exit(94)
        },
        ExitHow::Sleep => unreachable!(),
    }
}

mod serde_json {
    /// the harness already links serde_json through vcore
    pub fn from_str_compat<T: serde::de::DeserializeOwned>(s: &str) -> T {
        match vcore::serde_json::from_str(s) {
            Ok(v) => v,
            Err(e) => {
                eprintln!("c20 --child: bad spec: {e}");
                std::process::exit(93)
            }
        }
    }
}
