//! C13 part (ii): `AncillaryBuilder::push` then `AncillaryIter` over buffers of every size, judged
//! by an independent model of the Linux x86-64 control-message layout (16-byte header, 8-byte
//! alignment) and a canary behind the buffer.
use std::mem::MaybeUninit;

use compio_buf::{IoBuf, IoBufMut, SetLen};
use compio_io::ancillary::{AncillaryBuf, AncillaryBuilder, AncillaryIter, CodecError};
use serde::{Deserialize, Serialize};
use vcore::{mono_range, Outcome};

pub const ARR_SIZES: [usize; 7] = [1, 3, 7, 12, 16, 33, 64];
pub const FIXED_SIZES: [usize; 6] = [16, 24, 40, 64, 128, 256];

#[derive(Debug, Clone, Serialize, Deserialize, PartialEq)]
pub enum Data {
    Unit,
    U8(u8),
    U16(u16),
    U32(u32),
    I64(i64),
    /// `[u8; ARR_SIZES[k % 7]]` filled with `seed + 3*i`
    Arr { k: u8, seed: u8 },
    InAddr(u32),
    PktInfo { ifindex: i32, spec_dst: u32, addr: u32 },
    Pkt6Info { seed: u8, ifindex: u32 },
}

impl Data {
    pub fn bytes(&self) -> Vec<u8> {
        match *self {
            Data::Unit => vec![],
            Data::U8(v) => vec![v],
            Data::U16(v) => v.to_ne_bytes().to_vec(),
            Data::U32(v) => v.to_ne_bytes().to_vec(),
            Data::I64(v) => v.to_ne_bytes().to_vec(),
            Data::Arr { k, seed } => (0..ARR_SIZES[k as usize % ARR_SIZES.len()]).map(|i| seed.wrapping_add((i * 3) as u8)).collect(),
            Data::InAddr(v) => v.to_ne_bytes().to_vec(),
            Data::PktInfo { ifindex, spec_dst, addr } => {
                let mut v = ifindex.to_ne_bytes().to_vec();
                v.extend_from_slice(&spec_dst.to_ne_bytes());
                v.extend_from_slice(&addr.to_ne_bytes());
                v
            }
            Data::Pkt6Info { seed, ifindex } => {
                let mut v: Vec<u8> = (0..16).map(|i| seed.wrapping_add(i as u8 * 5)).collect();
                v.extend_from_slice(&ifindex.to_ne_bytes());
                v
            }
        }
    }
}

#[derive(Debug, Clone, Serialize, Deserialize)]
pub struct Msg {
    pub level: i32,
    pub ty: i32,
    pub data: Data,
}

#[derive(Debug, Clone, Serialize, Deserialize)]
pub enum BufKind {
    /// a caller-provided `IoBufMut` of exactly `mono_range(len, 16, 360)` bytes, 8-aligned
    Custom { len: u16 },
    /// `AncillaryBuf::<FIXED_SIZES[ix % 6]>`
    Fixed { ix: u8 },
}

#[derive(Debug, Clone, Serialize, Deserialize)]
pub struct CmsgCase {
    pub buf: BufKind,
    /// stale content of the buffer before `AncillaryBuilder::new` (which documents clearing it)
    pub prefill: u8,
    pub msgs: Vec<Msg>,
    /// run exactly as written even if a known finding would exclude this shape
    #[serde(default)]
    pub strict: bool,
}

const HDR: usize = 16;
fn space(n: usize) -> usize {
    (HDR + n + 7) & !7
}

const CANARY: u8 = 0xC5;
const GUARD: usize = 48;

/// Exactly `cap` usable bytes at an 8-aligned address, followed by canary bytes.
pub struct CanaryBuf {
    store: Vec<u64>,
    cap: usize,
    len: usize,
    pub max_set_len: usize,
}

impl CanaryBuf {
    pub fn new(cap: usize, prefill: u8) -> Self {
        let words = (cap + GUARD).div_ceil(8);
        let mut b = CanaryBuf { store: vec![0; words], cap, len: 0, max_set_len: 0 };
        let all = b.all_mut();
        all[..cap].fill(prefill);
        all[cap..].fill(CANARY);
        // a reused buffer: pretend half of it is "initialised" stale data
        b.len = cap / 2;
        b
    }

    fn all_mut(&mut self) -> &mut [u8] {
        unsafe { std::slice::from_raw_parts_mut(self.store.as_mut_ptr().cast::<u8>(), self.store.len() * 8) }
    }

    fn all(&self) -> &[u8] {
        unsafe { std::slice::from_raw_parts(self.store.as_ptr().cast::<u8>(), self.store.len() * 8) }
    }

    pub fn canary_intact(&self) -> bool {
        self.all()[self.cap..].iter().all(|b| *b == CANARY)
    }

    pub fn whole(&self) -> &[u8] {
        &self.all()[..self.cap]
    }
}

impl IoBuf for CanaryBuf {
    fn as_init(&self) -> &[u8] {
        let n = self.len.min(self.store.len() * 8);
        &self.all()[..n]
    }
}

impl SetLen for CanaryBuf {
    unsafe fn set_len(&mut self, len: usize) {
        self.max_set_len = self.max_set_len.max(len);
        self.len = len;
    }
}

impl IoBufMut for CanaryBuf {
    fn as_uninit(&mut self) -> &mut [MaybeUninit<u8>] {
        let cap = self.cap;
        unsafe { std::slice::from_raw_parts_mut(self.store.as_mut_ptr().cast::<MaybeUninit<u8>>(), cap) }
    }
}

#[repr(C)]
struct Guarded<const N: usize> {
    pre: [u8; 32],
    buf: AncillaryBuf<N>,
    post: [u8; 32],
}

struct Pushed {
    /// (accepted?, index into msgs)
    results: Vec<Result<(), String>>,
}

fn push_one<B: IoBufMut + ?Sized>(b: &mut AncillaryBuilder<'_, B>, m: &Msg) -> Result<(), CodecError> {
    macro_rules! arr {
        ($n:expr, $bytes:expr) => {{
            let a: [u8; $n] = $bytes.as_slice().try_into().unwrap();
            b.push(m.level, m.ty, &a)
        }};
    }
    match m.data {
        Data::Unit => b.push(m.level, m.ty, &()),
        Data::U8(v) => b.push(m.level, m.ty, &v),
        Data::U16(v) => b.push(m.level, m.ty, &v),
        Data::U32(v) => b.push(m.level, m.ty, &v),
        Data::I64(v) => b.push(m.level, m.ty, &v),
        Data::Arr { k, .. } => {
            let bytes = m.data.bytes();
            match ARR_SIZES[k as usize % ARR_SIZES.len()] {
                1 => arr!(1, bytes),
                3 => arr!(3, bytes),
                7 => arr!(7, bytes),
                12 => arr!(12, bytes),
                16 => arr!(16, bytes),
                33 => arr!(33, bytes),
                _ => arr!(64, bytes),
            }
        }
        Data::InAddr(v) => b.push(m.level, m.ty, &libc::in_addr { s_addr: v }),
        Data::PktInfo { ifindex, spec_dst, addr } => {
            b.push(m.level, m.ty, &libc::in_pktinfo { ipi_ifindex: ifindex, ipi_spec_dst: libc::in_addr { s_addr: spec_dst }, ipi_addr: libc::in_addr { s_addr: addr } })
        }
        Data::Pkt6Info { ifindex, .. } => {
            let a: [u8; 16] = m.data.bytes()[..16].try_into().unwrap();
            b.push(m.level, m.ty, &libc::in6_pktinfo { ipi6_addr: libc::in6_addr { s6_addr: a }, ipi6_ifindex: ifindex })
        }
    }
}

fn raw<T>(v: &T) -> Vec<u8> {
    unsafe { std::slice::from_raw_parts((v as *const T).cast::<u8>(), std::mem::size_of::<T>()) }.to_vec()
}

/// Decode the message with the type it was pushed with and return the raw bytes of the value.
fn decode_as(r: &compio_io::ancillary::AncillaryRef<'_>, d: &Data) -> Result<Vec<u8>, CodecError> {
    macro_rules! arr {
        ($n:expr) => {
            r.data::<[u8; $n]>().map(|a| a.to_vec())
        };
    }
    match d {
        Data::Unit => r.data::<()>().map(|_| vec![]),
        Data::U8(_) => r.data::<u8>().map(|v| vec![v]),
        Data::U16(_) => r.data::<u16>().map(|v| v.to_ne_bytes().to_vec()),
        Data::U32(_) => r.data::<u32>().map(|v| v.to_ne_bytes().to_vec()),
        Data::I64(_) => r.data::<i64>().map(|v| v.to_ne_bytes().to_vec()),
        Data::Arr { k, .. } => match ARR_SIZES[*k as usize % ARR_SIZES.len()] {
            1 => arr!(1),
            3 => arr!(3),
            7 => arr!(7),
            12 => arr!(12),
            16 => arr!(16),
            33 => arr!(33),
            _ => arr!(64),
        },
        Data::InAddr(_) => r.data::<libc::in_addr>().map(|v| v.s_addr.to_ne_bytes().to_vec()),
        Data::PktInfo { .. } => r.data::<libc::in_pktinfo>().map(|v| raw(&v)),
        Data::Pkt6Info { .. } => r.data::<libc::in6_pktinfo>().map(|v| raw(&v)),
    }
}

/// Ask for a value that is larger than the payload the message carries.
fn decode_larger(r: &compio_io::ancillary::AncillaryRef<'_>, payload: usize) -> Option<(usize, bool)> {
    macro_rules! t {
        ($n:expr) => {
            if payload < $n {
                return Some(($n, r.data::<[u8; $n]>().is_ok()));
            }
        };
    }
    t!(1);
    t!(4);
    t!(9);
    t!(17);
    t!(28);
    t!(40);
    t!(72);
    None
}

fn drive_builder<B: IoBufMut + ?Sized>(buf: &mut B, msgs: &[Msg]) -> Pushed {
    let mut b = AncillaryBuilder::new(buf);
    let mut results = vec![];
    for m in msgs {
        results.push(push_one(&mut b, m).map_err(|e| match e {
            CodecError::BufferTooSmall => "BufferTooSmall".to_string(),
            CodecError::Other(e) => format!("Other({e})"),
        }));
    }
    Pushed { results }
}

pub fn run_cmsg(case: &CmsgCase, excl: crate::frames::Excl) -> Outcome {
    let probe_larger = case.strict || !excl.cmsg_larger;
    if !(cfg!(target_os = "linux") && cfg!(target_pointer_width = "64")) {
        return Outcome::inconclusive("layout model is for 64-bit Linux");
    }
    let msgs = &case.msgs;
    let mut labels: Vec<String> = vec![];
    // ---- run the real builder
    macro_rules! fixed {
        ($n:expr) => {{
            let mut g = Box::new(Guarded::<$n> { pre: [CANARY; 32], buf: AncillaryBuf::<$n>::new(), post: [CANARY; 32] });
            let pushed = drive_builder(&mut g.buf, msgs);
            let init = g.buf.as_init().to_vec();
            let intact = g.pre.iter().chain(g.post.iter()).all(|b| *b == CANARY);
            // the aligned copy handed to the iterator
            (pushed, init.len(), $n, intact, {
                let mut w = g.buf.as_uninit().iter().map(|b| unsafe { b.assume_init() }).collect::<Vec<u8>>();
                w.truncate($n);
                w
            })
        }};
    }
    let (pushed, buf_len, cap, intact, whole) = match case.buf {
        BufKind::Custom { len } => {
            let cap = mono_range(len, 16, 360);
            let mut b = CanaryBuf::new(cap, case.prefill);
            let pushed = drive_builder(&mut b, msgs);
            let over = b.max_set_len > cap;
            if over {
                return Outcome::violation("C13/cmsg/len-beyond-capacity", format!("builder recorded {} initialised bytes in a {cap}-byte buffer", b.max_set_len));
            }
            (pushed, b.as_init().len(), cap, b.canary_intact(), b.whole().to_vec())
        }
        BufKind::Fixed { ix } => match FIXED_SIZES[ix as usize % FIXED_SIZES.len()] {
            16 => fixed!(16),
            24 => fixed!(24),
            40 => fixed!(40),
            64 => fixed!(64),
            128 => fixed!(128),
            _ => fixed!(256),
        },
    };
    labels.push(match case.buf {
        BufKind::Custom { .. } => "buf:custom".into(),
        BufKind::Fixed { .. } => "buf:AncillaryBuf".into(),
    });
    if !intact {
        return Outcome::violation("C13/cmsg/write-outside-buffer", format!("canary next to the {cap}-byte buffer was overwritten"));
    }
    // ---- model
    let mut off = 0usize;
    let mut accepted: Vec<(usize, &Msg)> = vec![];
    let mut image = vec![0u8; cap];
    let mut rejected = 0;
    let mut exact = false;
    for (i, (m, r)) in msgs.iter().zip(&pushed.results).enumerate() {
        let payload = m.data.bytes();
        let fits = off + space(payload.len()) <= cap;
        match (r, fits) {
            (Ok(()), true) => {
                image[off..off + 8].copy_from_slice(&(HDR + payload.len()).to_ne_bytes());
                image[off + 8..off + 12].copy_from_slice(&m.level.to_ne_bytes());
                image[off + 12..off + 16].copy_from_slice(&m.ty.to_ne_bytes());
                image[off + 16..off + 16 + payload.len()].copy_from_slice(&payload);
                accepted.push((off, m));
                off += space(payload.len());
                if off == cap {
                    exact = true;
                }
            }
            (Err(e), false) if e == "BufferTooSmall" => rejected += 1,
            (Ok(()), false) => {
                return Outcome::violation(
                    "C13/cmsg/push-accepted-without-space",
                    format!("push #{i} ({} payload bytes, CMSG_SPACE {}) accepted at offset {off} of a {cap}-byte buffer", payload.len(), space(payload.len())),
                )
            }
            (Err(e), true) => {
                return Outcome::violation(
                    "C13/cmsg/push-rejected-with-space",
                    format!("push #{i} ({} payload bytes, CMSG_SPACE {}) at offset {off} of a {cap}-byte buffer failed: {e}", payload.len(), space(payload.len())),
                )
            }
            (Err(e), false) => return Outcome::violation("C13/cmsg/push-wrong-error", format!("push #{i} failed with {e}, expected BufferTooSmall")),
        }
    }
    if buf_len != off {
        return Outcome::violation("C13/cmsg/buf-len", format!("after {} accepted messages the buffer reports {buf_len} bytes, CMSG_SPACE accounting gives {off}", accepted.len()));
    }
    if whole != image {
        let at = whole.iter().zip(&image).position(|(a, b)| a != b).unwrap();
        return Outcome::violation(
            "C13/cmsg/image-differs",
            format!("byte {at} of the control buffer is {:#04x}, the layout model says {:#04x} (cap {cap}, {} messages, stale fill {:#04x})", whole[at], image[at], accepted.len(), case.prefill),
        );
    }
    // ---- iterate (the builder's output is what the kernel would be given / would return)
    if buf_len >= HDR {
        // an 8-aligned copy of exactly the initialised bytes
        let mut store = vec![0u64; buf_len.div_ceil(8) + GUARD / 8];
        let bytes = unsafe { std::slice::from_raw_parts_mut(store.as_mut_ptr().cast::<u8>(), store.len() * 8) };
        bytes[..buf_len].copy_from_slice(&whole[..buf_len]);
        // behind the messages: bytes that are *not* any message's payload
        bytes[buf_len..].fill(0xEE);
        let view = &bytes[..buf_len];
        let mut it = unsafe { AncillaryIter::new(view) };
        for (i, (_, m)) in accepted.iter().enumerate() {
            let Some(r) = it.next() else {
                return Outcome::violation("C13/cmsg/iter-short", format!("iterator ended after {i} of {} messages", accepted.len()));
            };
            let payload = m.data.bytes();
            if r.level() != m.level || r.ty() != m.ty || r.len() != HDR + payload.len() {
                return Outcome::violation(
                    "C13/cmsg/iter-header",
                    format!("message {i}: level/type/len = {}/{}/{}, pushed {}/{}/{}", r.level(), r.ty(), r.len(), m.level, m.ty, HDR + payload.len()),
                );
            }
            match decode_as(&r, &m.data) {
                Ok(b) if b == payload => {}
                Ok(b) => return Outcome::violation("C13/cmsg/iter-data", format!("message {i}: decoded {b:?}, pushed {payload:?}")),
                Err(e) => return Outcome::violation("C13/cmsg/iter-decode-error", format!("message {i}: {e}")),
            }
            if !probe_larger {
                labels.push("excluded-known:decode-larger-probe".into());
            } else if let Some((asked, ok)) = decode_larger(&r, payload.len()) {
                if ok {
                    return Outcome::violation(
                        crate::frames::SIG_CMSG_LARGER,
                        format!(
                            "message {i} carries {} payload bytes; data::<[u8; {asked}]>() returned Ok, i.e. it read {} bytes beyond the payload (past the end of the message{})",
                            payload.len(),
                            asked - payload.len(),
                            if i + 1 == accepted.len() { " and of the buffer" } else { "" }
                        ),
                    );
                }
                labels.push("decode-larger-rejected".into());
            }
        }
        if it.next().is_some() {
            return Outcome::violation("C13/cmsg/iter-long", format!("iterator yields more than the {} pushed messages", accepted.len()));
        }
        labels.push("iterated".into());
    }
    if rejected > 0 {
        labels.push("push-rejected".into());
    }
    if exact {
        labels.push("exact-fit".into());
    }
    labels.push(format!("accepted:{}", match accepted.len() {
        0 => "0",
        1 => "1",
        2..=3 => "2-3",
        _ => "4+",
    }));
    Outcome::pass_owned(accepted.len() >= 2, labels)
}
