use compio_net::{TcpListener, TcpStream};
use compio_runtime::{CancelToken, StreamExt as _};
use futures_util::StreamExt;
fn main() {
    let poll = std::env::args().nth(1).as_deref() == Some("poll");
    let n: usize = std::env::args().nth(2).and_then(|s| s.parse().ok()).unwrap_or(1);
    let mut b = compio_driver::ProactorBuilder::new();
    b.driver_type(if poll { compio_driver::DriverType::Poll } else { compio_driver::DriverType::IoUring });
    let rt = compio_runtime::RuntimeBuilder::new().with_proactor(b).build().unwrap();
    rt.block_on(async {
        let l = TcpListener::bind("127.0.0.1:0").await.unwrap();
        let addr = l.local_addr().unwrap();
        let mut keep = vec![];
        for _ in 0..n { keep.push(TcpStream::connect(addr).await.unwrap()); }
        let ct = CancelToken::new();
        let mut inc = std::pin::pin!(l.incoming().with_cancel(ct.clone()));
        for i in 0..n { let s = inc.next().await.unwrap().unwrap(); println!("accepted {i}"); keep.push(s); }
        ct.cancel();
        println!("cancelled, polling");
        let r = inc.next().await;
        println!("after cancel: {:?}", r.map(|r| r.map(|_| ())));
    });
}
