//! Small helpers: raw control-message building/parsing, a yield future, a reference file for SCM_RIGHTS.
use std::{
    future::Future,
    io,
    os::fd::{AsRawFd, OwnedFd, RawFd},
    pin::Pin,
    task::{Context, Poll},
};

const HDR: usize = std::mem::size_of::<libc::cmsghdr>();

fn align(n: usize) -> usize {
    (n + std::mem::size_of::<usize>() - 1) & !(std::mem::size_of::<usize>() - 1)
}

/// One control message (`cmsghdr` + data, padded to CMSG_SPACE) as plain bytes.
pub fn cmsg(level: i32, ty: i32, data: &[u8]) -> Vec<u8> {
    let mut v = vec![0u8; align(HDR) + align(data.len())];
    let len = align(HDR) + data.len();
    v[..std::mem::size_of::<usize>()].copy_from_slice(&len.to_ne_bytes());
    v[8..12].copy_from_slice(&level.to_ne_bytes());
    v[12..16].copy_from_slice(&ty.to_ne_bytes());
    v[align(HDR)..align(HDR) + data.len()].copy_from_slice(data);
    v
}

/// Parse a control buffer as filled by the kernel: list of (level, type, data).
pub fn parse_cmsgs(buf: &[u8]) -> Result<Vec<(i32, i32, Vec<u8>)>, String> {
    let mut out = vec![];
    let mut off = 0;
    while off + HDR <= buf.len() {
        let len = usize::from_ne_bytes(buf[off..off + 8].try_into().unwrap());
        let level = i32::from_ne_bytes(buf[off + 8..off + 12].try_into().unwrap());
        let ty = i32::from_ne_bytes(buf[off + 12..off + 16].try_into().unwrap());
        if len < HDR || off + len > buf.len() {
            return Err(format!("cmsg at {off}: cmsg_len {len} outside the {} reported bytes", buf.len()));
        }
        out.push((level, ty, buf[off + align(HDR)..off + len].to_vec()));
        off += align(len);
    }
    Ok(out)
}

pub fn is_nobufs(e: &io::Error) -> bool {
    e.raw_os_error() == Some(libc::ENOBUFS) || e.kind() == io::ErrorKind::ResourceBusy
}

/// Yield to the executor once.
pub fn yield_now() -> impl Future<Output = ()> {
    struct Y(bool);
    impl Future for Y {
        type Output = ();

        fn poll(mut self: Pin<&mut Self>, cx: &mut Context<'_>) -> Poll<()> {
            if self.0 {
                Poll::Ready(())
            } else {
                self.0 = true;
                cx.waker().wake_by_ref();
                Poll::Pending
            }
        }
    }
    Y(false)
}

/// A harness-owned descriptor used as the payload of SCM_RIGHTS messages.
pub struct DevNull {
    fd: OwnedFd,
    dev: u64,
    ino: u64,
}

impl DevNull {
    pub fn open() -> io::Result<Self> {
        let f = std::fs::File::open("/dev/null")?;
        let (dev, ino) = stat(f.as_raw_fd()).ok_or_else(io::Error::last_os_error)?;
        Ok(DevNull { fd: f.into(), dev, ino })
    }

    pub fn fd(&self) -> RawFd {
        self.fd.as_raw_fd()
    }

    pub fn same_file(&self, fd: RawFd) -> bool {
        stat(fd) == Some((self.dev, self.ino))
    }
}

pub fn stat(fd: RawFd) -> Option<(u64, u64)> {
    let mut st: libc::stat = unsafe { std::mem::zeroed() };
    if unsafe { libc::fstat(fd, &mut st) } == 0 {
        Some((st.st_dev as u64, st.st_ino as u64))
    } else {
        None
    }
}
