//! C07 — managed buffer pool: exclusive ownership and conservation (DESIGN.md §3 C07).
//!
//! The harness owns the event loop and the peer end of every resource: it decides when data is fed,
//! when a held buffer is dropped, when a pending operation is cancelled, when a multishot stream is
//! dropped, and finally counts the buffers of the pool.
mod alloc;

use std::{
    cell::RefCell,
    collections::BTreeMap,
    io,
    os::fd::{AsRawFd, RawFd},
    rc::Rc,
    time::Duration,
};

use compio_driver::{
    op::{RecvFromMultiResult, RecvMsgMultiResult},
    BufferRef,
};
use compio_fs::{pipe, File};
use compio_io::{
    ancillary::{AncillaryBuf, AsyncReadAncillaryManaged, AsyncReadAncillaryMulti},
    AsyncReadManaged, AsyncReadManagedAt, AsyncReadMulti,
};
use compio_net::{TcpListener, TcpStream, UdpSocket, UnixListener, UnixStream};
use compio_runtime::{JoinHandle, Runtime, RuntimeBuilder};
use futures_util::StreamExt;
use netlab::{drive, errno_name, fill, join_now, proactor_builder, turns, Drv, RtCfg, SharedLog};
use serde::{Deserialize, Serialize};
use vcore::{
    mono_ix, mono_range,
    proptest::{collection::vec, prelude::*},
    Outcome, Part, Session,
};

// ------------------------------------------------------------------------------------------------
// case type

#[derive(Debug, Clone, Copy, PartialEq, Serialize, Deserialize)]
pub enum ResKind {
    Pipe,
    Tcp,
    Unix,
    Udp,
    File,
}

#[derive(Debug, Clone, Serialize, Deserialize)]
pub enum OpKind {
    /// read_managed (pipe, TCP, Unix) / recv_managed (UDP) / read_managed_at (file, at `pos`)
    Managed { len: u16, pos: u16 },
    /// recv_from_managed (UDP; other resources: as Managed)
    FromManaged { len: u16 },
    /// recv_msg_managed (UDP) / read_managed_with_ancillary (TCP, Unix); pipe, file: as Managed
    MsgManaged { len: u16 },
    /// read_multi / recv_multi stream: take up to `take` items, then drop the stream
    Multi { len: u16, take: u8 },
    /// recv_from_multi (UDP; others: as Multi)
    FromMulti { take: u8 },
    /// recv_msg_multi (UDP) / read_multi_with_ancillary (TCP, Unix); others: as Multi
    MsgMulti { take: u8 },
}

#[derive(Debug, Clone, Serialize, Deserialize)]
pub enum Step {
    Start { res: u16, op: OpKind },
    /// write `n` position-coded bytes (one datagram for UDP) into the peer end
    Feed { res: u16, n: u16 },
    /// `k` turns of the event loop
    Turn { k: u8 },
    /// only the driver half of a turn (completions recorded, no task runs): the next step acts while
    /// a completion that already selected a buffer has not been seen by its future yet
    PollOnly,
    /// drop one held buffer (index mapped into the live table)
    DropBuf { ix: u16 },
    DropAllBufs,
    /// cancel one running operation / stream task (drops its future)
    Cancel { ix: u16 },
    /// shut the feeding side down (end of stream); UDP and files: nothing
    CloseFeed { res: u16 },
}

#[derive(Debug, Clone, Serialize, Deserialize)]
pub struct PoolCase {
    pub drv: Drv,
    pub pool_size: u8,
    pub buf_len: u16,
    pub resources: Vec<ResKind>,
    pub steps: Vec<Step>,
    /// how many of the buffers obtained in the final count are held across the runtime's drop
    pub hold_over_drop: u8,
}

// ------------------------------------------------------------------------------------------------
// resources

enum Res {
    Pipe { rx: pipe::Receiver, _tx: pipe::Sender, feed: RawFd },
    Tcp { rx: TcpStream, _peer: TcpStream, feed: RawFd },
    Unix { rx: UnixStream, _peer: UnixStream, feed: RawFd },
    Udp { rx: UdpSocket, peer: std::net::UdpSocket },
    File { f: File, len: usize },
}

impl Res {
    fn kind(&self) -> ResKind {
        match self {
            Res::Pipe { .. } => ResKind::Pipe,
            Res::Tcp { .. } => ResKind::Tcp,
            Res::Unix { .. } => ResKind::Unix,
            Res::Udp { .. } => ResKind::Udp,
            Res::File { .. } => ResKind::File,
        }
    }
}

const FILE_LEN: usize = 700;

async fn make_res(kind: ResKind, dir: std::path::PathBuf, ix: usize) -> io::Result<Res> {
    Ok(match kind {
        ResKind::Pipe => {
            let (rx, tx) = pipe::anonymous().await?;
            let feed = tx.as_raw_fd();
            Res::Pipe { rx, _tx: tx, feed }
        }
        ResKind::Tcp => {
            let l = TcpListener::bind("127.0.0.1:0").await?;
            let addr = l.local_addr()?;
            let acc = compio_runtime::spawn(async move { l.accept().await });
            let peer = TcpStream::connect(addr).await?;
            let (rx, _) = acc.await.map_err(|_| io::Error::other("accept task"))??;
            peer.set_nodelay(true)?;
            let feed = peer.as_raw_fd();
            Res::Tcp { rx, _peer: peer, feed }
        }
        ResKind::Unix => {
            let p = dir.join(format!("u{ix}.sock"));
            let l = UnixListener::bind(&p).await?;
            let acc = compio_runtime::spawn(async move { l.accept().await });
            let peer = UnixStream::connect(&p).await?;
            let (rx, _) = acc.await.map_err(|_| io::Error::other("accept task"))??;
            let feed = peer.as_raw_fd();
            Res::Unix { rx, _peer: peer, feed }
        }
        ResKind::Udp => {
            let rx = UdpSocket::bind("127.0.0.1:0").await?;
            let peer = std::net::UdpSocket::bind("127.0.0.1:0")?;
            peer.connect(rx.local_addr()?)?;
            Res::Udp { rx, peer }
        }
        ResKind::File => {
            let p = dir.join(format!("f{ix}.bin"));
            std::fs::write(&p, fill(file_seed(ix), 0, FILE_LEN))?;
            Res::File { f: File::open(&p).await?, len: FILE_LEN }
        }
    })
}

fn res_seed(ix: usize) -> u64 {
    1000 + ix as u64 * 131
}

fn file_seed(ix: usize) -> u64 {
    res_seed(ix)
}

fn dgram(ix: usize, j: usize, n: usize) -> Vec<u8> {
    fill(res_seed(ix) + 17 * (j as u64 + 1), 0, n)
}

// ------------------------------------------------------------------------------------------------
// model + held buffers

#[derive(Default)]
struct Model {
    /// stream: bytes fed / UDP: datagram lengths fed
    fed: u64,
    dgrams: Vec<usize>,
    /// stream: next expected position / UDP: next expected datagram index
    pos: u64,
    closed: bool,
    /// an operation on this resource was cancelled or a stream dropped early: what it had already
    /// taken from the OS is legitimately gone, later data may start further on
    lossy: bool,
    busy: bool,
    eof_seen: bool,
}

enum HeldObj {
    Buf(BufferRef),
    From(RecvFromMultiResult),
    Msg(RecvMsgMultiResult),
}

impl HeldObj {
    fn data(&self) -> &[u8] {
        match self {
            HeldObj::Buf(b) => b,
            HeldObj::From(r) => r.data(),
            HeldObj::Msg(r) => r.data(),
        }
    }
}

struct Held {
    obj: HeldObj,
    addr: usize,
    snapshot: Vec<u8>,
    /// completions seen since this buffer was received
    later_completions: u32,
    from: String,
}

#[derive(Default)]
struct State {
    models: Vec<Model>,
    held: Vec<Held>,
    completions: u64,
    held_across: u32,
    labels: Vec<String>,
    errors_nobufs: u32,
}

type Shared = Rc<RefCell<State>>;

fn label(st: &Shared, l: &str) {
    let mut s = st.borrow_mut();
    if !s.labels.iter().any(|x| x == l) {
        s.labels.push(l.to_string());
    }
}

/// Exclusivity audit: every live handle lies inside its own pool allocation, snapshots unchanged.
fn audit(st: &Shared, log: &SharedLog, when: &str) {
    let s = st.borrow();
    let mut owners: BTreeMap<usize, usize> = BTreeMap::new();
    for (i, h) in s.held.iter().enumerate() {
        let d = h.obj.data();
        if d.as_ptr() as usize != h.addr || d != &h.snapshot[..] {
            let at = d.iter().zip(h.snapshot.iter()).position(|(a, b)| a != b);
            log.violate(
                "C07/held-buffer-changed",
                format!("{when}: buffer #{i} ({}, {} bytes) held by the user changed: first differing byte {at:?}, address {:#x} -> {:#x}", h.from, h.snapshot.len(), h.addr, d.as_ptr() as usize),
            );
            return;
        }
        if d.is_empty() {
            continue;
        }
        match alloc::allocation_of(d.as_ptr() as usize, d.len()) {
            Some(a) => {
                if let Some(j) = owners.insert(a, i) {
                    log.violate("C07/two-handles-one-buffer", format!("{when}: live handles #{j} ({}) and #{i} ({}) both refer to the pool buffer at {a:#x}", s.held[j].from, h.from));
                    return;
                }
            }
            None => {
                log.violate("C07/handle-outside-pool", format!("{when}: handle #{i} ({}) points at {:#x}+{} which is not inside a live pool buffer", h.from, d.as_ptr() as usize, d.len()));
                return;
            }
        }
    }
}

/// Judge delivered data against the model of resource `ri`, then keep the handle.
fn deliver(st: &Shared, log: &SharedLog, ri: usize, kind: ResKind, obj: HeldObj, cap: usize, what: &str, file_pos: Option<usize>) {
    let data = obj.data().to_vec();
    {
        let mut s = st.borrow_mut();
        s.completions += 1;
        for h in s.held.iter_mut() {
            h.later_completions += 1;
        }
        let newly: u32 = s.held.iter().filter(|h| h.later_completions == 1).count() as u32;
        s.held_across += newly;
        let m = &mut s.models[ri];
        if data.len() > cap {
            log.violate("C07/more-than-capacity", format!("{what}: {} bytes delivered, limit {cap}", data.len()));
            return;
        }
        match kind {
            ResKind::File => {
                let p = file_pos.unwrap_or(0);
                let want = fill(file_seed(ri), p as u64, data.len());
                if data != want || p + data.len() > FILE_LEN {
                    log.violate("C07/file-data-mismatch", format!("{what}: {} bytes at {p} differ from the file's content", data.len()));
                    return;
                }
            }
            ResKind::Udp => {
                let first = m.pos as usize;
                let upto = if m.lossy { m.dgrams.len() } else { (first + 1).min(m.dgrams.len()) };
                let hit = (first..upto).find(|j| {
                    let n = m.dgrams[*j];
                    data.len() == n.min(cap) && data == dgram(ri, *j, n)[..n.min(cap)]
                });
                match hit {
                    Some(j) => m.pos = j as u64 + 1,
                    None => {
                        log.violate(
                            if m.lossy { "C07/datagram-mismatch-after-cancel" } else { "C07/datagram-mismatch" },
                            format!("{what}: {} bytes; expected datagram #{first} ({:?} bytes, capacity {cap}); fed so far {}", data.len(), m.dgrams.get(first), m.dgrams.len()),
                        );
                        return;
                    }
                }
            }
            _ => {
                let seed = res_seed(ri);
                let n = data.len() as u64;
                let ok_at = |p: u64| p + n <= m.fed && data == fill(seed, p, n as usize);
                let hit = if ok_at(m.pos) {
                    Some(m.pos)
                } else if m.lossy {
                    (m.pos..=m.fed.saturating_sub(n)).find(|p| ok_at(*p))
                } else {
                    None
                };
                match hit {
                    Some(p) => m.pos = p + n,
                    None => {
                        log.violate(
                            if m.lossy { "C07/stream-data-mismatch-after-cancel" } else { "C07/stream-data-mismatch" },
                            format!("{what}: {} bytes do not continue the fed sequence at {} (fed {})", data.len(), m.pos, m.fed),
                        );
                        return;
                    }
                }
            }
        }
        let addr = obj.data().as_ptr() as usize;
        s.held.push(Held { obj, addr, snapshot: data, later_completions: 0, from: what.to_string() });
    }
    audit(st, log, what);
}

fn is_nobufs(e: &io::Error) -> bool {
    e.raw_os_error() == Some(libc::ENOBUFS) || e.kind() == io::ErrorKind::ResourceBusy
}

/// An operation finished without data.
fn finished_empty(st: &Shared, log: &SharedLog, ri: usize, kind: ResKind, what: &str, r: Result<(), io::Error>) {
    let mut s = st.borrow_mut();
    s.completions += 1;
    match r {
        Ok(()) => {
            // "no data": end of stream (or end of file)
            let m = &mut s.models[ri];
            match kind {
                ResKind::File => {}
                ResKind::Udp => {
                    log.violate("C07/none-for-datagram", format!("{what}: reported no data on a datagram socket (no empty datagram was sent)"));
                }
                _ => {
                    if !m.closed {
                        log.violate("C07/eof-before-close", format!("{what}: end of stream although the feeding side is open (fed {}, delivered {})", m.fed, m.pos));
                    } else if !m.lossy && m.pos != m.fed {
                        log.violate("C07/eof-before-all-data", format!("{what}: end of stream after {} of {} fed bytes", m.pos, m.fed));
                    }
                    m.eof_seen = true;
                }
            }
        }
        Err(e) if is_nobufs(&e) => {
            s.errors_nobufs += 1;
        }
        Err(e) => {
            log.violate(format!("C07/op-error/{}", errno_name(&e)), format!("{what}: {e}"));
        }
    }
}

// ------------------------------------------------------------------------------------------------
// operations as tasks

fn mcap(len: u16, buf_len: usize) -> usize {
    if len == 0 {
        buf_len
    } else {
        (len as usize).min(buf_len)
    }
}

async fn run_op(res: Rc<Res>, ri: usize, op: OpKind, case: Rc<PoolCase>, st: Shared, log: SharedLog) {
    let kind = res.kind();
    let buf_len = case.buf_len as usize;
    let iour = case.drv == Drv::IoUring;
    macro_rules! single {
        ($what:expr, $cap:expr, $fpos:expr, $e:expr) => {{
            let what: String = $what;
            match $e {
                Ok(Some(b)) => deliver(&st, &log, ri, kind, HeldObj::Buf(b), $cap, &what, $fpos),
                Ok(None) => finished_empty(&st, &log, ri, kind, &what, Ok(())),
                Err(e) => finished_empty(&st, &log, ri, kind, &what, Err(e)),
            }
        }};
    }
    macro_rules! multi {
        ($what:expr, $cap:expr, $take:expr, $stream:expr, $wrap:expr) => {{
            let what: String = $what;
            let mut stream = std::pin::pin!($stream);
            let mut taken = 0u8;
            let mut ended = false;
            while taken < $take {
                match stream.next().await {
                    Some(Ok(item)) => {
                        taken += 1;
                        deliver(&st, &log, ri, kind, $wrap(item), $cap, &format!("{what} item {taken}"), None);
                        if log.failed() {
                            break;
                        }
                    }
                    Some(Err(e)) => {
                        finished_empty(&st, &log, ri, kind, &what, Err(e));
                        ended = true;
                        break;
                    }
                    None => {
                        finished_empty(&st, &log, ri, kind, &what, Ok(()));
                        ended = true;
                        break;
                    }
                }
            }
            if !ended {
                // early drop of the stream: what the multishot had already taken is gone
                st.borrow_mut().models[ri].lossy = true;
                label(&st, "stream-dropped-early");
            }
        }};
    }
    match (&*res, op) {
        (Res::File { f, len }, OpKind::Managed { len: l, pos }) => {
            let p = mono_range(pos, 0, *len + 20);
            single!(format!("file.read_managed_at({l}, {p})"), mcap(l, buf_len), Some(p), f.read_managed_at(l as usize, p as u64).await)
        }
        (Res::File { f, .. }, OpKind::FromManaged { len: l }) | (Res::File { f, .. }, OpKind::MsgManaged { len: l }) => {
            single!(format!("file.read_managed_at({l}, 0)"), mcap(l, buf_len), Some(0), f.read_managed_at(l as usize, 0).await)
        }
        (Res::File { f, .. }, OpKind::Multi { len: l, .. }) => {
            single!(format!("file.read_managed_at({l}, 5)"), mcap(l, buf_len), Some(5), f.read_managed_at(l as usize, 5).await)
        }
        (Res::File { f, .. }, OpKind::FromMulti { .. }) | (Res::File { f, .. }, OpKind::MsgMulti { .. }) => {
            single!("file.read_managed_at(0, 690)".to_string(), buf_len, Some(690), f.read_managed_at(0, 690).await)
        }
        (Res::Pipe { rx, .. }, OpKind::Managed { len: l, .. }) | (Res::Pipe { rx, .. }, OpKind::FromManaged { len: l }) | (Res::Pipe { rx, .. }, OpKind::MsgManaged { len: l }) => {
            single!(format!("pipe.read_managed({l})"), mcap(l, buf_len), None, (&mut &*rx).read_managed(l as usize).await)
        }
        (Res::Pipe { rx, .. }, OpKind::Multi { len: l, take }) => {
            // io_uring's multishot read takes its length from the provided buffer only: a non-zero
            // length is refused by the kernel with EINVAL (reported to C08's owner; not this property)
            let l = if iour { 0 } else { l };
            {
                let mut r = &*rx;
                multi!(format!("pipe.read_multi({l})"), mcap(l, buf_len), take, r.read_multi(l as usize), HeldObj::Buf)
            }
        }
        (Res::Pipe { rx, .. }, OpKind::FromMulti { take }) | (Res::Pipe { rx, .. }, OpKind::MsgMulti { take }) => {
            {
                let mut r = &*rx;
                multi!("pipe.read_multi(0)".to_string(), buf_len, take, r.read_multi(0), HeldObj::Buf)
            }
        }
        (Res::Tcp { rx, .. }, OpKind::Managed { len: l, .. }) | (Res::Tcp { rx, .. }, OpKind::FromManaged { len: l }) => {
            single!(format!("tcp.read_managed({l})"), mcap(l, buf_len), None, (&mut &*rx).read_managed(l as usize).await)
        }
        (Res::Unix { rx, .. }, OpKind::Managed { len: l, .. }) | (Res::Unix { rx, .. }, OpKind::FromManaged { len: l }) => {
            single!(format!("unix.read_managed({l})"), mcap(l, buf_len), None, (&mut &*rx).read_managed(l as usize).await)
        }
        (Res::Tcp { rx, .. }, OpKind::MsgManaged { len: l }) => {
            single!(
                format!("tcp.read_managed_with_ancillary({l})"),
                mcap(l, buf_len),
                None,
                (&mut &*rx).read_managed_with_ancillary(l as usize, AncillaryBuf::<32>::new()).await.map(|o| o.map(|(b, _, _)| b))
            )
        }
        (Res::Unix { rx, .. }, OpKind::MsgManaged { len: l }) => {
            single!(
                format!("unix.read_managed_with_ancillary({l})"),
                mcap(l, buf_len),
                None,
                (&mut &*rx).read_managed_with_ancillary(l as usize, AncillaryBuf::<32>::new()).await.map(|o| o.map(|(b, _, _)| b))
            )
        }
        (Res::Tcp { rx, .. }, OpKind::Multi { len: l, take }) => {
                let mut r = &*rx;
                multi!(format!("tcp.read_multi({l})"), mcap(l, buf_len), take, r.read_multi(l as usize), HeldObj::Buf)
            },
        (Res::Unix { rx, .. }, OpKind::Multi { len: l, take }) => {
                let mut r = &*rx;
                multi!(format!("unix.read_multi({l})"), mcap(l, buf_len), take, r.read_multi(l as usize), HeldObj::Buf)
            },
        (Res::Tcp { rx, .. }, OpKind::FromMulti { take }) => {
                let mut r = &*rx;
                multi!("tcp.read_multi(0)".to_string(), buf_len, take, r.read_multi(0), HeldObj::Buf)
            },
        (Res::Unix { rx, .. }, OpKind::FromMulti { take }) => {
                let mut r = &*rx;
                multi!("unix.read_multi(0)".to_string(), buf_len, take, r.read_multi(0), HeldObj::Buf)
            },
        (Res::Tcp { rx, .. }, OpKind::MsgMulti { take }) => {
            let cap = if iour { buf_len.saturating_sub(16 + 128) } else { buf_len };
            {
                let mut r = &*rx;
                multi!("tcp.read_multi_with_ancillary(0)".to_string(), cap, take, r.read_multi_with_ancillary(0), HeldObj::Msg)
            }
        }
        (Res::Unix { rx, .. }, OpKind::MsgMulti { take }) => {
            let cap = if iour { buf_len.saturating_sub(16 + 128) } else { buf_len };
            {
                let mut r = &*rx;
                multi!("unix.read_multi_with_ancillary(0)".to_string(), cap, take, r.read_multi_with_ancillary(0), HeldObj::Msg)
            }
        }
        (Res::Udp { rx, .. }, OpKind::Managed { len: l, .. }) => single!(format!("udp.recv_managed({l})"), mcap(l, buf_len), None, rx.recv_managed(l as usize).await),
        (Res::Udp { rx, .. }, OpKind::FromManaged { len: l }) => {
            single!(format!("udp.recv_from_managed({l})"), mcap(l, buf_len), None, rx.recv_from_managed(l as usize).await.map(|o| o.map(|(b, _)| b)))
        }
        (Res::Udp { rx, .. }, OpKind::MsgManaged { len: l }) => {
            single!(format!("udp.recv_msg_managed({l})"), mcap(l, buf_len), None, rx.recv_msg_managed(l as usize, AncillaryBuf::<32>::new()).await.map(|o| o.map(|(b, _, _, _)| b)))
        }
        (Res::Udp { rx, .. }, OpKind::Multi { len: l, take }) => multi!(format!("udp.recv_multi({l})"), mcap(l, buf_len), take, rx.recv_multi(l as usize), HeldObj::Buf),
        (Res::Udp { rx, .. }, OpKind::FromMulti { take }) => {
            let cap = if iour { buf_len.saturating_sub(16 + 128) } else { buf_len };
            multi!("udp.recv_from_multi()".to_string(), cap, take, rx.recv_from_multi(), HeldObj::From)
        }
        (Res::Udp { rx, .. }, OpKind::MsgMulti { take }) => {
            let cap = if iour { buf_len.saturating_sub(16 + 128 + 32) } else { buf_len };
            multi!("udp.recv_msg_multi(32)".to_string(), cap, take, rx.recv_msg_multi(32), HeldObj::Msg)
        }
    }
    st.borrow_mut().models[ri].busy = false;
}

// ------------------------------------------------------------------------------------------------
// interpreter

fn feed(res: &Res, ri: usize, m: &mut Model, n: usize) {
    match res {
        Res::Pipe { feed, .. } => {
            if m.closed || n == 0 {
                return;
            }
            let d = fill(res_seed(ri), m.fed, n);
            let r = unsafe { libc::write(*feed, d.as_ptr() as _, n) };
            if r > 0 {
                m.fed += r as u64;
            }
        }
        Res::Tcp { feed, .. } | Res::Unix { feed, .. } => {
            if m.closed || n == 0 {
                return;
            }
            let d = fill(res_seed(ri), m.fed, n);
            let r = unsafe { libc::send(*feed, d.as_ptr() as _, n, libc::MSG_DONTWAIT | libc::MSG_NOSIGNAL) };
            if r > 0 {
                m.fed += r as u64;
            }
        }
        Res::Udp { peer, .. } => {
            let n = n.max(1);
            // at most 12 undelivered datagrams so that loopback never drops
            if m.dgrams.len() as u64 - m.pos >= 12 {
                return;
            }
            let j = m.dgrams.len();
            if peer.send(&dgram(ri, j, n)).is_ok() {
                m.dgrams.push(n);
            }
        }
        Res::File { .. } => {}
    }
}

fn close_feed(res: &Res, m: &mut Model) {
    match res {
        Res::Pipe { .. } => {} // the write end is owned by the compio Sender kept in the resource
        Res::Tcp { feed, .. } | Res::Unix { feed, .. } => {
            if !m.closed {
                unsafe { libc::shutdown(*feed, libc::SHUT_WR) };
                m.closed = true;
            }
        }
        _ => {}
    }
}

pub fn run_pool(case: &PoolCase) -> Outcome {
    let case = Rc::new(normalised(case));
    alloc::reset();
    let out = run_inner(&case);
    // whatever happened: everything the pool allocated must be released by now, exactly once
    let fin = alloc::finish();
    match (out, fin) {
        (o @ Outcome::Violation { .. }, _) => o,
        (o @ Outcome::Inconclusive { .. }, _) => o,
        (_, Err((sig, detail))) => Outcome::violation(sig, detail),
        (o, Ok(())) => o,
    }
}

fn run_inner(case: &Rc<PoolCase>) -> Outcome {
    let mut cfg = RtCfg::new(case.drv);
    cfg.pool_size = case.pool_size as u16;
    cfg.pool_len = case.buf_len as usize;
    cfg.capacity = 64;
    let mut pb = proactor_builder(&cfg);
    pb.buffer_pool_allocator::<alloc::Tracked>();
    let rt = match RuntimeBuilder::new().with_proactor(pb).build() {
        Ok(rt) => rt,
        Err(e) => return Outcome::inconclusive(format!("runtime build: {e}")),
    };
    let log = SharedLog::new();
    let tmp = match tempfile::Builder::new().prefix("c07").tempdir() {
        Ok(t) => t,
        Err(e) => return Outcome::inconclusive(format!("tempdir: {e}")),
    };
    // ---- resources (+ one Unix pair reserved for the final count)
    let kinds: Vec<ResKind> = case.resources.iter().copied().chain([ResKind::Unix]).collect();
    let dir = tmp.path().to_path_buf();
    let mut mk = rt.spawn(async move {
        let mut v = vec![];
        for (i, k) in kinds.into_iter().enumerate() {
            v.push(Rc::new(make_res(k, dir.clone(), i).await?));
        }
        io::Result::Ok(v)
    });
    if !drive(&rt, || mk.is_finished(), Duration::from_secs(60)) {
        return Outcome::inconclusive("watchdog: resource setup");
    }
    let mut resources = match join_now(&mut mk) {
        Some(Ok(Ok(v))) => v,
        Some(Ok(Err(e))) => return Outcome::inconclusive(format!("resource setup: {e}")),
        other => return Outcome::inconclusive(format!("resource setup failed: {:?}", other.map(|r| r.map(|_| ())))),
    };
    let probe = resources.pop().unwrap();
    let st: Shared = Rc::new(RefCell::new(State { models: resources.iter().map(|_| Model::default()).collect(), ..Default::default() }));
    let mut tasks: Vec<(usize, JoinHandle<()>)> = vec![];
    let nres = resources.len();
    let mut cancels = 0;

    let reap = |tasks: &mut Vec<(usize, JoinHandle<()>)>, log: &SharedLog| {
        let mut i = 0;
        while i < tasks.len() {
            if tasks[i].1.is_finished() {
                let (_, mut h) = tasks.remove(i);
                if let Some(Err(e)) = join_now(&mut h) {
                    log.violate(format!("C07/{}", netlab::strip_digits(&e)), e);
                }
            } else {
                i += 1;
            }
        }
    };

    for (si, step) in case.steps.iter().enumerate() {
        if log.failed() {
            break;
        }
        match step {
            Step::Start { res, op } => {
                let ri = mono_ix(*res, nres);
                if st.borrow().models[ri].busy {
                    label(&st, "start-skipped-busy");
                } else {
                    st.borrow_mut().models[ri].busy = true;
                    let h = rt.enter(|| rt.spawn(run_op(resources[ri].clone(), ri, op.clone(), case.clone(), st.clone(), log.clone())));
                    tasks.push((ri, h));
                }
            }
            Step::Feed { res, n } => {
                let ri = mono_ix(*res, nres);
                feed(&resources[ri], ri, &mut st.borrow_mut().models[ri], *n as usize);
            }
            Step::Turn { k } => turns(&rt, *k as usize, Duration::from_millis(1)),
            Step::PollOnly => netlab::poll_only(&rt, Duration::from_millis(1)),
            Step::DropBuf { ix } => {
                let n = st.borrow().held.len();
                if n > 0 {
                    let h = st.borrow_mut().held.remove(mono_ix(*ix, n));
                    drop(h);
                }
            }
            Step::DropAllBufs => {
                let v = std::mem::take(&mut st.borrow_mut().held);
                drop(v);
            }
            Step::Cancel { ix } => {
                reap(&mut tasks, &log);
                if !tasks.is_empty() {
                    let (ri, h) = tasks.remove(mono_ix(*ix, tasks.len()));
                    let mut s = st.borrow_mut();
                    s.models[ri].lossy = true;
                    s.models[ri].busy = false;
                    drop(s);
                    rt.enter(|| drop(h));
                    cancels += 1;
                }
            }
            Step::CloseFeed { res } => {
                let ri = mono_ix(*res, nres);
                close_feed(&resources[ri], &mut st.borrow_mut().models[ri]);
            }
        }
        reap(&mut tasks, &log);
        audit(&st, &log, &format!("after step #{si} {step:?}"));
    }
    // ---- quiesce: a few turns, final audit, then everything is let go
    if !log.failed() {
        turns(&rt, 3, Duration::from_millis(1));
        reap(&mut tasks, &log);
        audit(&st, &log, "before the final release");
    }
    let pending_at_end = tasks.len();
    rt.enter(|| drop(std::mem::take(&mut tasks)));
    let (held_across, completions, nobufs, mut labels) = {
        let mut s = st.borrow_mut();
        let v = std::mem::take(&mut s.held);
        drop(v);
        (s.held_across, s.completions, s.errors_nobufs, std::mem::take(&mut s.labels))
    };
    rt.enter(|| drop(resources));
    if let Some((sig, detail)) = log.take().violation {
        drop(rt);
        return Outcome::violation(sig, detail);
    }
    turns(&rt, 6, Duration::from_millis(1));

    // ---- (iii) conservation: exactly N buffers can be held at once, the (N+1)-th read errors out
    let n_pool = (case.pool_size as usize).next_power_of_two();
    let (rx, feed_fd) = match &*probe {
        Res::Unix { rx, feed, .. } => (rx.clone(), *feed),
        _ => unreachable!(),
    };
    let count = |rt: &Runtime| -> Result<(Vec<BufferRef>, Option<String>), Outcome> {
        let mut got: Vec<BufferRef> = vec![];
        let mut last_err = None;
        for i in 0..=n_pool {
            let b = [0x5Au8];
            if unsafe { libc::send(feed_fd, b.as_ptr() as _, 1, libc::MSG_DONTWAIT | libc::MSG_NOSIGNAL) } != 1 {
                return Err(Outcome::inconclusive("count: cannot feed the probe socket"));
            }
            let rx2 = rx.clone();
            let mut h = rt.enter(|| rt.spawn(async move { (&mut &rx2).read_managed(1).await }));
            if !drive(rt, || h.is_finished(), Duration::from_secs(30)) {
                // never a hang: rescue rule — release one buffer; if the read then completes it was
                // waiting for a buffer instead of reporting exhaustion
                if i == n_pool && !got.is_empty() {
                    got.pop();
                    if drive(rt, || h.is_finished(), Duration::from_secs(2)) {
                        return Err(Outcome::violation("C07/exhaustion-hangs", format!("with all {n_pool} buffers held a managed read stayed pending until a buffer was released")));
                    }
                }
                rt.enter(|| drop(h));
                return Err(Outcome::inconclusive(format!("watchdog: count read #{i}")));
            }
            match join_now(&mut h) {
                Some(Ok(Ok(Some(b)))) => {
                    if &*b != [0x5A] {
                        return Err(Outcome::violation("C07/count-data-mismatch", format!("count read #{i} delivered {:?}", &*b)));
                    }
                    got.push(b);
                }
                Some(Ok(Ok(None))) => return Err(Outcome::violation("C07/count-none", format!("count read #{i} reported end of stream"))),
                Some(Ok(Err(e))) => {
                    last_err = Some(format!("read #{i}: {e}"));
                    if !is_nobufs(&e) {
                        return Err(Outcome::violation(format!("C07/count-error/{}", errno_name(&e)), format!("count read #{i}: {e}")));
                    }
                    // the byte that was not read stays queued: take it out so that the next round starts clean
                    let mut x = [0u8; 4];
                    unsafe { libc::recv(rx.as_raw_fd(), x.as_mut_ptr() as _, 1, libc::MSG_DONTWAIT) };
                    break;
                }
                Some(Err(e)) => return Err(Outcome::violation(format!("C07/{}", netlab::strip_digits(&e)), e)),
                None => return Err(Outcome::inconclusive("count: join")),
            }
        }
        Ok((got, last_err))
    };
    let mut round = 0;
    let got = loop {
        let (got, err) = match count(&rt) {
            Ok(x) => x,
            Err(o) => {
                drop((rx, probe));
                drop(rt);
                return o;
            }
        };
        // distinct buffers
        let mut addrs: Vec<usize> = got.iter().map(|b| b.as_ptr() as usize).collect();
        addrs.sort_unstable();
        addrs.dedup();
        if addrs.len() != got.len() {
            drop((got, rx, probe));
            drop(rt);
            return Outcome::violation("C07/count-duplicate-buffer", "two simultaneously held count buffers share an address");
        }
        if got.len() == n_pool {
            break got;
        }
        if got.len() > n_pool {
            let n = got.len();
            drop((got, rx, probe));
            drop(rt);
            return Outcome::violation("C07/pool-grew", format!("{n} buffers could be held at once from a pool of {n_pool}"));
        }
        // fewer than N: rescue rule — a buffer still travelling back (cancellation in flight) turns up
        // after more loop turns, a leaked one never does
        let n = got.len();
        drop(got);
        round += 1;
        if round > 1 {
            drop((rx, probe));
            drop(rt);
            return Outcome::violation(
                "C07/pool-shrunk",
                format!("after the program only {n} of {n_pool} pool buffers can be obtained (last error: {err:?}); cancels {cancels}, ops pending at the end {pending_at_end}"),
            );
        }
        turns(&rt, 60, Duration::from_millis(2));
    };

    // ---- (iv) buffers outliving the runtime free themselves
    let mut got = got;
    let keep = (case.hold_over_drop as usize).min(got.len());
    got.truncate(keep);
    let before = alloc::stats();
    drop((rx, probe));
    drop(rt);
    let after = alloc::stats();
    let expect_live = keep;
    if after.live != expect_live {
        drop(got);
        return Outcome::violation(
            "C07/runtime-drop-accounting",
            format!("runtime dropped with {keep} buffers still held: {} pool allocations remain live (before the drop: {}), expected {expect_live}", after.live, before.live),
        );
    }
    for b in &got {
        if &**b != [0x5A] {
            return Outcome::violation("C07/buffer-after-runtime-changed", "a buffer held across the runtime's drop lost its content");
        }
    }
    drop(got);
    let end = alloc::stats();
    if end.live != 0 {
        return Outcome::violation("C07/buffers-not-freed", format!("{} pool allocations were never released", end.live));
    }

    labels.push(format!("drv:{}", case.drv.name()));
    labels.push(format!("pool:{n_pool}"));
    if held_across > 0 {
        labels.push("held-across-completion".into());
    }
    if cancels > 0 {
        labels.push("cancelled-op".into());
    }
    if nobufs > 0 {
        labels.push("exhaustion-error".into());
    }
    if keep > 0 {
        labels.push("held-over-runtime-drop".into());
    }
    if pending_at_end > 0 {
        labels.push("pending-at-end".into());
    }
    if completions >= 4 {
        labels.push("completions>=4".into());
    }
    for k in &case.resources {
        labels.push(format!("res:{k:?}"));
    }
    labels.sort();
    labels.dedup();
    let nontrivial = held_across > 0 || labels.iter().any(|l| l == "stream-dropped-early");
    Outcome::pass_owned(nontrivial, labels)
}

// ------------------------------------------------------------------------------------------------
// generator

fn op() -> impl Strategy<Value = OpKind> + Clone {
    let len = prop_oneof![2 => Just(0u16), 2 => 1u16..=40, 1 => 41u16..=300];
    prop_oneof![
        4 => (len.clone(), any::<u16>()).prop_map(|(len, pos)| OpKind::Managed { len, pos }),
        2 => len.clone().prop_map(|len| OpKind::FromManaged { len }),
        2 => len.clone().prop_map(|len| OpKind::MsgManaged { len }),
        4 => (len, 1u8..=5).prop_map(|(len, take)| OpKind::Multi { len, take }),
        2 => (1u8..=5).prop_map(|take| OpKind::FromMulti { take }),
        2 => (1u8..=5).prop_map(|take| OpKind::MsgMulti { take }),
    ]
}

fn step() -> impl Strategy<Value = Step> + Clone {
    prop_oneof![
        5 => (any::<u16>(), op()).prop_map(|(res, op)| Step::Start { res, op }),
        7 => (any::<u16>(), prop_oneof![3 => 1u16..=30, 2 => 31u16..=300]).prop_map(|(res, n)| Step::Feed { res, n }),
        5 => (1u8..=4).prop_map(|k| Step::Turn { k }),
        2 => Just(Step::PollOnly),
        3 => any::<u16>().prop_map(|ix| Step::DropBuf { ix }),
        1 => Just(Step::DropAllBufs),
        2 => any::<u16>().prop_map(|ix| Step::Cancel { ix }),
        1 => any::<u16>().prop_map(|res| Step::CloseFeed { res }),
    ]
}

fn case_strategy() -> impl Strategy<Value = PoolCase> + Clone {
    (
        prop_oneof![Just(Drv::IoUring), Just(Drv::Poll)],
        1u8..=16,
        prop_oneof![2 => 16u16..=64, 2 => 65u16..=256],
        vec(prop_oneof![2 => Just(ResKind::Pipe), 3 => Just(ResKind::Tcp), 2 => Just(ResKind::Unix), 3 => Just(ResKind::Udp), 1 => Just(ResKind::File)], 1..=3),
        vec(step(), 0..=40),
        0u8..=4,
    )
        .prop_map(|(drv, pool_size, buf_len, resources, steps, hold_over_drop)| PoolCase { drv, pool_size, buf_len, resources, steps, hold_over_drop })
}

/// Map a case into the domain the interfaces accept (construction, not filtering).
fn normalised(c: &PoolCase) -> PoolCase {
    let mut c = c.clone();
    c.pool_size = c.pool_size.clamp(1, 16);
    c.buf_len = c.buf_len.clamp(16, 256);
    if c.resources.is_empty() {
        c.resources.push(ResKind::Pipe);
    }
    let uses_msg_multi = c.steps.iter().any(|s| matches!(s, Step::Start { op: OpKind::FromMulti { .. } | OpKind::MsgMulti { .. }, .. }));
    if c.drv == Drv::IoUring && uses_msg_multi {
        // io_uring multishot recvmsg: header 16 + name 128 + control 32 + payload share one pool buffer
        c.buf_len = c.buf_len.max(200);
    }
    if c.drv == Drv::Poll && EXCLUDE_FUSION_POLL.load(std::sync::atomic::Ordering::Relaxed) {
        // known finding C14 (fusion build on the polling driver: multishot recvmsg items are empty):
        // not generated while it is listed as known
        for s in &mut c.steps {
            if let Step::Start { op, .. } = s {
                match op {
                    OpKind::FromMulti { take } | OpKind::MsgMulti { take } => *op = OpKind::Multi { len: 0, take: *take },
                    _ => {}
                }
            }
        }
    }
    c
}

static EXCLUDE_FUSION_POLL: std::sync::atomic::AtomicBool = std::sync::atomic::AtomicBool::new(false);

fn main() {
    netlab::raise_nofile();
    let mut s = Session::new();
    if s.known_signatures("C14").iter().any(|k| k.contains("empty-payload/poll") || k.contains("empty-item-before-eof/poll")) {
        EXCLUDE_FUSION_POLL.store(true, std::sync::atomic::Ordering::Relaxed);
    }
    let mut p = Part::new(
        "C07",
        "pool",
        "case = driver {io_uring buffer ring, polling driver's fallback pool} x pool size 1..16 x buffer length 16..256 x 1-3 resources (pipe, TCP, Unix stream, UDP, file) whose peer end the \
         harness holds x program of 0-40 steps: Start(op on a resource: read_managed / recv_managed / read_managed_at, recv_from_managed, recv_msg_managed / read_managed_with_ancillary, and the \
         streams read_multi / recv_multi, recv_from_multi, recv_msg_multi / read_multi_with_ancillary taking 1-5 items then dropped), Feed(n position-coded bytes or one datagram), Turn(k loop turns), PollOnly (driver half of a turn), \
         DropBuf(i), DropAllBufs, Cancel(i-th pending op), CloseFeed; every delivered buffer is kept by the harness until a Drop step; afterwards everything is released, the pool is counted \
         (N reads held at once, the N+1-th must error) and 0-4 buffers are held across the runtime's drop under a tracking allocator. Non-trivial = some buffer was still held when a later \
         completion arrived, or a multishot stream was dropped before its end; distinct = distinct serialised case.",
    );
    p.quick_cases = 3000;
    p.thorough_cases = 30000;
    p.threads = 4;
    p.max_shrink_iters = 500;
    p.assumptions = vec![
        "at most one operation is pending per resource, so deliveries on one resource are totally ordered",
        "data already taken from the OS by a cancelled operation or an early-dropped multishot stream is legitimately lost; after such a step the resource is only checked for order and content, not for gaps",
        "a pool buffer that is still on its way back after a cancellation reappears within 60 further loop turns (rescue rule before 'pool-shrunk' is reported)",
    ];
    p.regressions = vec![(
        "hold-across",
        PoolCase {
            drv: Drv::IoUring,
            pool_size: 2,
            buf_len: 32,
            resources: vec![ResKind::Tcp, ResKind::Udp],
            steps: vec![
                Step::Feed { res: 0, n: 100 },
                Step::Start { res: 0, op: OpKind::Multi { len: 0, take: 2 } },
                Step::Turn { k: 3 },
                Step::Feed { res: 40000, n: 20 },
                Step::Start { res: 40000, op: OpKind::FromManaged { len: 0 } },
                Step::Turn { k: 3 },
                Step::DropBuf { ix: 0 },
                Step::Start { res: 0, op: OpKind::Managed { len: 5, pos: 0 } },
                Step::Turn { k: 2 },
                Step::Cancel { ix: 0 },
            ],
            hold_over_drop: 1,
        },
    )];
    s.run_part(p, case_strategy(), run_pool);
    s.finish();
}
