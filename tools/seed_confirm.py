#!/usr/bin/env python3
"""Confirm a seeded defect in a scratch worktree and record it under /verif/seeded/<id>-<v>/.

usage: seed_confirm.py <ID> <variant> [--no-baseline]
Reads /tmp/seed/out-<ID>/<variant>/{patch.diff,demo.rs,README.md}; the table below says where the
demo lives in the worktree, how to run it and which check binaries to try.
Steps (all in /tmp/wt-main, never in /repo):
  1. clean checkout of /repo's HEAD, demo copied in, demo must PASS
  2. patch applied, `cargo build --workspace --offline` must succeed, demo must FAIL
  3. demo removed, the pinned baseline suite must still pass with the patch (one retry of failures)
  4. every listed check binary is run against the patched worktree (tools/mutant_run.sh): caught?
"""
import json, os, shutil, subprocess, sys, time

WT = os.environ.get("SEED_WT", "/tmp/wt-main")
NX = "cargo nextest run --workspace --offline --no-fail-fast"
T = {
 # id-variant: (demo path in worktree, demo command, [(ws, bin, args)])
 "C01-a": ("compio-driver/tests/c01_a_zc_error.rs", NX + " -E 'binary(c01_a_zc_error)'", [("ws-driver", "drvlab", ["C01"])]),
 "C01-b": ("compio-driver/tests/c01_b_drop_pending_cqe.rs", NX + " -E 'binary(c01_b_drop_pending_cqe)'", [("ws-driver", "drvlab", ["C01"])]),
 "C02-a": ("compio-driver/tests/c02_tiny_ring_burst.rs", "cargo test -p compio-driver --offline --test c02_tiny_ring_burst", [("ws-driver", "drvlab", ["C02"])]),
 "C02-b": ("compio-runtime/tests/c02_waker_update.rs", "cargo test --workspace --offline --test c02_waker_update", [("ws-driver", "drvlab", ["C02"])]),
 "C05-a": ("compio-driver/tests/c05_cancel_after_complete.rs", "cargo test -p compio-driver --features polling --offline --test c05_cancel_after_complete", [("ws-driver", "drvlab", ["C05"])]),
 "C05-b": ("compio-runtime/tests/c05_cancel_personality.rs", "cargo test --workspace --offline --test c05_cancel_personality", [("ws-driver", "rtlab", [])]),
 "C08-a": ("compio-fs/tests/seed_c08a.rs", "cargo test --offline -p compio-fs --features compio-driver/io-uring,compio-driver/polling --test seed_c08a", [("ws-fs", "c08", [])]),
 "C08-b": ("compio-fs/tests/seed_c08b.rs", NX + " -E 'package(compio-fs) & binary(seed_c08b)'", [("ws-fs", "c08", [])]),
 "C10-a": ("compio-buf/tests/seed_c10_a.rs", NX + " -E 'package(compio-buf) & binary(seed_c10_a)'", [("ws-buf", "c10", [])]),
 "C10-b": ("compio-driver/tests/seed_c10_b.rs", NX + " -E 'package(compio-driver) & binary(seed_c10_b)'", [("ws-buf", "c10", [])]),
 "C11-a": ("compio-io/tests/seed_c11_a.rs", NX + " -E 'package(compio-io) & binary(seed_c11_a)'", [("ws-io", "c11", [])]),
 "C11-b": ("compio-io/tests/seed_c11_b.rs", NX + " -E 'package(compio-io) & binary(seed_c11_b)'", [("ws-io", "c11", [])]),
 "C12-a": ("compio-io/tests/c12_a_read_limit.rs", "cargo nextest run -p compio-io --offline --features compat -E 'binary(c12_a_read_limit)'", [("ws-io", "c12", [])]),
 "C12-b": ("compio-io/tests/c12_b_waker_update.rs", "cargo nextest run -p compio-io --offline --features compat -E 'binary(c12_b_waker_update)'", [("ws-io", "c12", [])]),
 "C13-a": ("compio-io/tests/seed_c13_a.rs", NX + " -E 'package(compio-io) & binary(seed_c13_a)'", [("ws-frame", "c13", [])]),
 "C13-b": ("compio-io/tests/seed_c13_b.rs", NX + " -E 'package(compio-io) & binary(seed_c13_b)'", [("ws-frame", "c13", [])]),
}
# round 2 (variant c): the demonstration file that is run when it is not demo.rs
DEMO_SRC = {"C06-c": "demo_stress.rs"}
T.update({
 "C01-c": ("compio-driver/tests/pool_teardown.rs", "cargo test --offline -p compio-driver --features polling --test pool_teardown", [("ws-driver", "drvlab", ["C01"]), ("ws-net", "c07", [])]),
 "C02-c": ("compio-driver/tests/pool_completion_with_readiness.rs", "cargo test -p compio-driver --features polling --offline --test pool_completion_with_readiness", [("ws-driver", "drvlab", ["C02"])]),
 "C05-c": ("compio-driver/tests/c05_cancel_starved.rs", "cargo test -p compio-driver --features polling --offline --test c05_cancel_starved", [("ws-driver", "drvlab", ["C05"]), ("ws-driver", "rtlab", [])]),
 "C06-c": ("compio-driver/tests/fd_sync_drop_race.rs", "cargo test -p compio-driver --features sync --offline --test fd_sync_drop_race", [("ws-sched", "c06b", []), ("ws-net", "c06a", [])]),
 "C07-c": ("compio-driver/tests/buffer_pool_late_multishot.rs", "cargo test -p compio-driver --offline --test buffer_pool_late_multishot", [("ws-net", "c07", [])]),
 "C12-c": ("compio-io/tests/compat_waker_migration.rs", "cargo test -p compio-io --features compat --offline --test compat_waker_migration", [("ws-io", "c12", [])]),
 "C18-c": ("compio-dispatcher/tests/join_worker_panic.rs", "cargo test --workspace --offline --test join_worker_panic -- --test-threads=1", [("ws-pool", "c18", [])]),
 "C03-d": ("compio-executor/tests/remote_wake_reservation.rs", "cargo test -p compio-executor --offline --test remote_wake_reservation", [("ws-sched", "c03a", [])]),
 "C08-d": ("compio-fs/tests/seed_c08_d.rs", NX + " -E 'package(compio-fs) & binary(seed_c08_d)'", [("ws-fs", "c08", [])]),
 "C14-d": ("compio-net/tests/c14_poll_duplex.rs", "cargo test --offline -p compio-net -p compio-driver --features compio-driver/polling --test c14_poll_duplex", [("ws-net", "c14", ["--part", "duplex"])]),
 "C19-d": ("compio-actor/tests/seed_c19_failed_start_name.rs", NX + " -E 'package(compio-actor) & binary(seed_c19_failed_start_name)'", [("ws-pool", "c19", [])]),
 "C16-c": ("compio-quic/tests/open_wait_wakeups.rs", NX + " --test open_wait_wakeups -E 'package(compio-quic)'", [("ws-proto", "c16", [])]),
})
EXTRA = "/tmp/seed/confirm_table.json"   # further entries added later: {"C17-a": [demo_path, cmd, [[ws,bin,[args]]]]}
if os.path.exists(EXTRA):
    for k, v in json.load(open(EXTRA)).items():
        if k in T:
            continue
        T[k] = (v[0], v[1], [tuple(x) for x in v[2]])


def sh(cmd, cwd=WT, timeout=3600):
    t0 = time.time()
    r = subprocess.run(cmd, shell=True, cwd=cwd, stdout=subprocess.PIPE, stderr=subprocess.STDOUT, text=True, timeout=timeout)
    return r.returncode, r.stdout, time.time() - t0


def main():
    pid, var = sys.argv[1], sys.argv[2]
    key = f"{pid}-{var}"
    demo_rel, demo_cmd, checks = T[key]
    src = {"a": f"/tmp/seed/out-{pid}/{var}", "b": f"/tmp/seed/out-{pid}/{var}", "c": f"/tmp/seed/out2-{pid}/{var}"}.get(var, f"/tmp/seed/out3-{pid}/{var}")   # round 2 = variant c, round 3 = d
    head = subprocess.run(["git", "-C", "/repo", "rev-parse", "--short", "HEAD"], capture_output=True, text=True).stdout.strip()
    sh("git checkout -q -- . && git clean -qfd -e target && git checkout -q --detach " + head)
    meta = {"id": key, "property": pid, "repo_head": head, "demo_path": demo_rel, "demo_cmd": demo_cmd, "steps": {}}
    os.makedirs(os.path.dirname(os.path.join(WT, demo_rel)), exist_ok=True)
    shutil.copy(os.path.join(src, DEMO_SRC.get(key, "demo.rs")), os.path.join(WT, demo_rel))
    rc, out, dt = sh(demo_cmd)
    meta["steps"]["demo_without_patch"] = {"exit": rc, "secs": round(dt), "tail": out[-600:]}
    print(key, "demo without patch: exit", rc, flush=True)
    rc, out, _ = sh(f"git apply {src}/patch.diff")
    if rc != 0:
        meta["steps"]["apply"] = {"exit": rc, "tail": out[-400:]}
        print(key, "PATCH DOES NOT APPLY", out[-300:])
        finish(meta, src, key, ok=False)
        return
    rc, out, dt = sh("cargo build --workspace --offline 2>&1 | tail -5")
    meta["steps"]["build_with_patch"] = {"exit": rc, "secs": round(dt), "tail": out[-400:]}
    rc, out, dt = sh(demo_cmd)
    meta["steps"]["demo_with_patch"] = {"exit": rc, "secs": round(dt), "tail": out[-900:]}
    print(key, "demo with patch: exit", rc, flush=True)
    os.remove(os.path.join(WT, demo_rel))
    if "--no-baseline" not in sys.argv:
        rc, out, dt = sh(NX + " 2>&1 | grep -E 'Summary|^\\s+FAIL' | sort -u")
        if rc != 0 or "failed" in out:
            rc2, out2, dt2 = sh(NX + " 2>&1 | grep -E 'Summary|^\\s+FAIL' | sort -u")
            out = out + "\n-- retry --\n" + out2
        meta["steps"]["baseline_with_patch"] = {"secs": round(dt), "tail": out[-900:]}
        print(key, "baseline with patch:", out.strip().splitlines()[-1] if out.strip() else "?", flush=True)
    res = {}
    for ws, b, args in checks:
        rc, out, dt = sh(f"/verif/tools/mutant_run.sh {ws} {b} {WT} {' '.join(args)} 2>&1 | grep -E 'VIOLATION|^\\[C|mutant_run: exit|regression case|^C[0-9]+/' | cut -c1-260 | head -12", cwd="/verif", timeout=7200)
        import re as _re
        caught = bool(_re.search(r"mutant_run: exit=1\b", out)) or "VIOLATION" in out
        res[f"{ws}/{b} {' '.join(args)}".strip()] = {"caught": caught, "secs": round(dt), "output": out[-1200:]}
        print(key, f"check {b} {' '.join(args)}: caught={caught}", flush=True)
    meta["checks"] = res
    sh("git checkout -q -- . && git clean -qfd -e target")
    ok = meta["steps"]["demo_without_patch"]["exit"] == 0 and meta["steps"]["demo_with_patch"]["exit"] != 0 and meta["steps"]["build_with_patch"]["exit"] == 0
    finish(meta, src, key, ok)


def finish(meta, src, key, ok):
    meta["confirmed"] = ok
    d = f"/verif/seeded/{key}"
    os.makedirs(d, exist_ok=True)
    for f in ("patch.diff", "demo.rs", "README.md", "demo_output.txt"):
        if os.path.exists(os.path.join(src, f)):
            shutil.copy(os.path.join(src, f), os.path.join(d, f))
    json.dump(meta, open(os.path.join(d, "meta.json"), "w"), indent=1)
    print(key, "confirmed" if ok else "NOT CONFIRMED", flush=True)


if __name__ == "__main__":
    main()
