#!/usr/bin/env python3
"""Fill `breaks` and `needs` in seeded/*/meta.json from properties.jsonl and the README of each seeded change."""
import glob, json, os, re
props = {json.loads(l)["id"]: json.loads(l) for l in open("/verif/properties.jsonl") if l.strip()}
for f in sorted(glob.glob("/verif/seeded/*/meta.json")):
    m = json.load(open(f))
    d = os.path.dirname(f)
    p = props[m["property"]]
    m["breaks"] = f"{p['id']} — {p['title']}"
    readme = open(os.path.join(d, "README.md")).read() if os.path.exists(os.path.join(d, "README.md")) else ""
    # the section that says what is needed for the change to manifest
    sec = re.split(r"(?mi)^#+ .*$", readme)
    heads = re.findall(r"(?mi)^#+ (.*)$", readme)
    needs = ""
    for h, body in zip(heads, sec[1:]):
        if re.search(r"(?i)need|manifest|trigger", h):
            needs = body.strip()
            break
    if not needs:
        mm = re.search(r"(?is)(\*\*Trigger[^\n]*\n.*?)(?:\n\n|\Z)", readme) or re.search(r"(?is)(needs? [^\n]*manifest.*?)(?:\n\n|\Z)", readme)
        needs = mm.group(1).strip() if mm else readme.strip()[:600]
    m["needs"] = re.sub(r"\s+", " ", needs)[:900]
    m["ran"] = "tools/seed_confirm.py: demo on HEAD, git apply, cargo build --workspace --offline, demo with patch, pinned suite with patch (cargo nextest run --workspace --offline --no-fail-fast, one retry of failures), check binaries via tools/mutant_run.sh against the patched scratch worktree; see steps/checks"
    json.dump(m, open(f, "w"), indent=1)
print("filled", len(glob.glob("/verif/seeded/*/meta.json")))
