//! C14 part "accept": every incoming connection is yielded exactly once, by single `accept()` calls
//! and by `incoming()` (multishot) streams, with optional mid-stream cancellation.
use std::{cell::RefCell, collections::BTreeMap, io, os::fd::AsRawFd, path::PathBuf, rc::Rc, time::Duration};

use compio_buf::BufResult;
use compio_io::{AsyncRead, AsyncReadExt, AsyncWriteExt};
use compio_net::{TcpListener, TcpStream, UnixListener, UnixStream};
use compio_runtime::{CancelToken, StreamExt as _};
use futures_util::StreamExt;
use netlab::{build_rt, drive, join_now, Drv, RtCfg, SharedLog};
use serde::{Deserialize, Serialize};
use vcore::{
    proptest::{collection::vec, prelude::*},
    Outcome, Part, Session,
};

use crate::stream::Transport;

#[derive(Debug, Clone, Serialize, Deserialize)]
pub enum AStep {
    /// start `launch` more clients, then accept exactly one connection with `accept()`;
    /// the others wait in the listen queue for later steps
    Single { launch: u8 },
    /// start `launch` more clients (at least one if none is waiting), then take *all* outstanding
    /// connections from one `incoming()` stream, which is then dropped; `cancel`: the stream runs under
    /// a cancel token that is fired after the last connection, right before the drop
    Incoming { launch: u8, cancel: bool },
}

#[derive(Debug, Clone, Serialize, Deserialize)]
pub struct AcceptCase {
    pub drv: Drv,
    pub transport: Transport,
    pub steps: Vec<AStep>,
    /// final step: take everything still outstanding (plus `launch` new) from a plain `incoming()`
    /// stream that is simply dropped afterwards
    pub tail_launch: u8,
}

const MAX_CONNS: usize = 12;

#[derive(Default)]
struct Book {
    /// client id -> local port of the client socket (0 for Unix)
    launched: BTreeMap<u8, u16>,
    /// accepted: (client id, peer port seen by the server, how)
    accepted: Vec<(u8, u16, &'static str)>,
    clients_connected: usize,
    clients_finished: usize,
    done: bool,
}

enum Listener {
    Tcp(TcpListener),
    Unix(UnixListener, PathBuf),
}

enum Conn {
    Tcp(TcpStream),
    Unix(UnixStream),
}

fn launch(l: &Listener, id: u8, book: &Rc<RefCell<Book>>, log: &SharedLog) {
    let book = book.clone();
    let log = log.clone();
    book.borrow_mut().launched.insert(id, 0);
    match l {
        Listener::Tcp(l) => {
            let addr = l.local_addr().unwrap();
            compio_runtime::spawn(async move {
                match TcpStream::connect(addr).await {
                    Ok(mut s) => {
                        let port = s.local_addr().map(|a| a.port()).unwrap_or(0);
                        book.borrow_mut().launched.insert(id, port);
                        if let Err(e) = s.write_all([id]).await.0 {
                            log.violate("C14/accept/client-write-error", format!("client {id}: {e}"));
                        }
                        book.borrow_mut().clients_connected += 1;
                        // every yielded connection is kept open by the acceptor until the case is over:
                        // end of stream / reset seen by the client before that means the connection was
                        // accepted and then closed without ever being yielded
                        let BufResult(r, _) = s.read([0u8; 1]).await;
                        if !book.borrow().done {
                            log.violate("C14/accept/connection-closed-unyielded", format!("client {id}: its connection was closed by the accepting side ({r:?}) while the acceptor still holds every yielded connection"));
                        }
                        book.borrow_mut().clients_finished += 1;
                        drop(s);
                    }
                    Err(e) => log.violate("C14/accept/client-connect-error", format!("client {id}: {e}")),
                }
            })
            .detach();
        }
        Listener::Unix(_, path) => {
            let path = path.clone();
            compio_runtime::spawn(async move {
                match UnixStream::connect(&path).await {
                    Ok(mut s) => {
                        if let Err(e) = s.write_all([id]).await.0 {
                            log.violate("C14/accept/client-write-error", format!("client {id}: {e}"));
                        }
                        book.borrow_mut().clients_connected += 1;
                        // every yielded connection is kept open by the acceptor until the case is over:
                        // end of stream / reset seen by the client before that means the connection was
                        // accepted and then closed without ever being yielded
                        let BufResult(r, _) = s.read([0u8; 1]).await;
                        if !book.borrow().done {
                            log.violate("C14/accept/connection-closed-unyielded", format!("client {id}: its connection was closed by the accepting side ({r:?}) while the acceptor still holds every yielded connection"));
                        }
                        book.borrow_mut().clients_finished += 1;
                        drop(s);
                    }
                    Err(e) => log.violate("C14/accept/client-connect-error", format!("client {id}: {e}")),
                }
            })
            .detach();
        }
    }
}

/// Read the id byte of an accepted connection and book it.
async fn book_conn(c: Conn, addr_port: Option<u16>, how: &'static str, book: &Rc<RefCell<Book>>, log: &SharedLog, keep: &mut Vec<Conn>) -> bool {
    let (id, port) = match c {
        Conn::Tcp(mut s) => {
            let port = match s.peer_addr() {
                Ok(a) => a.port(),
                Err(e) => {
                    log.violate("C14/accept/peer-addr-error", format!("{how}: accepted stream has no peer address: {e}"));
                    return false;
                }
            };
            if let Some(p) = addr_port {
                if p != port {
                    log.violate("C14/accept/address-mismatch", format!("{how}: accept() returned port {p}, the stream's peer port is {port}"));
                    return false;
                }
            }
            let BufResult(r, b) = s.read_exact([0u8; 1]).await;
            if let Err(e) = r {
                log.violate("C14/accept/accepted-stream-dead", format!("{how}: reading the client's id from the accepted connection (peer port {port}): {e}"));
                return false;
            }
            keep.push(Conn::Tcp(s));
            (b[0], port)
        }
        Conn::Unix(mut s) => {
            let BufResult(r, b) = s.read_exact([0u8; 1]).await;
            if let Err(e) = r {
                log.violate("C14/accept/accepted-stream-dead", format!("{how}: reading the client's id from the accepted connection: {e}"));
                return false;
            }
            keep.push(Conn::Unix(s));
            (b[0], 0)
        }
    };
    book.borrow_mut().accepted.push((id, port, how));
    true
}

async fn acceptor(l: Listener, case: AcceptCase, book: Rc<RefCell<Book>>, log: SharedLog) {
    let mut keep: Vec<Conn> = vec![];
    let mut next_id: u8 = 0;
    let mut outstanding = 0usize;
    let mut steps = case.steps.clone();
    steps.push(AStep::Incoming { launch: case.tail_launch, cancel: false });
    let last = steps.len() - 1;
    for (si, step) in steps.iter().enumerate() {
        if log.failed() {
            break;
        }
        let (want_launch, is_single, cancel) = match *step {
            AStep::Single { launch } => (launch as usize, true, false),
            AStep::Incoming { launch, cancel } => (launch as usize, false, cancel),
        };
        let room = MAX_CONNS - next_id as usize;
        let mut n_launch = want_launch.min(room);
        if outstanding + n_launch == 0 {
            if room == 0 {
                continue;
            }
            n_launch = 1;
        }
        for _ in 0..n_launch {
            launch(&l, next_id, &book, &log);
            next_id += 1;
            outstanding += 1;
        }
        if is_single {
            let how = "accept()";
            let r = match &l {
                Listener::Tcp(l) => l.accept().await.map(|(s, a)| (Conn::Tcp(s), Some(a.port()))),
                Listener::Unix(l, _) => l.accept().await.map(|(s, _)| (Conn::Unix(s), None)),
            };
            match r {
                Ok((c, p)) => {
                    if !book_conn(c, p, how, &book, &log, &mut keep).await {
                        break;
                    }
                    outstanding -= 1;
                }
                Err(e) => {
                    log.violate("C14/accept/accept-error", format!("step {si} accept(): {e}"));
                    break;
                }
            }
        } else {
            let how = if cancel { "incoming()+cancel" } else { "incoming()" };
            let token = CancelToken::new();
            macro_rules! run_incoming {
                ($l:expr, $wrap:path) => {{
                    let inc = $l.incoming();
                    let mut inc = std::pin::pin!(inc.with_cancel(token.clone()));
                    let mut ok = true;
                    while outstanding > 0 {
                        match inc.next().await {
                            Some(Ok(s)) => {
                                if !book_conn($wrap(s), None, how, &book, &log, &mut keep).await {
                                    ok = false;
                                    break;
                                }
                                outstanding -= 1;
                            }
                            Some(Err(e)) => {
                                log.violate("C14/accept/incoming-error", format!("step {si} {how}: {e} with {outstanding} connections outstanding"));
                                ok = false;
                                break;
                            }
                            None => {
                                log.violate("C14/accept/incoming-ended", format!("step {si} {how}: stream ended with {outstanding} connections outstanding"));
                                ok = false;
                                break;
                            }
                        }
                    }
                    if ok && cancel {
                        // fire the token, then drop the stream (whether and when a cancelled stream
                        // reports the cancellation is C05's question, not asked here)
                        token.clone().cancel();
                    }
                    ok
                }};
            }
            let ok = match &l {
                Listener::Tcp(l) => run_incoming!(l, Conn::Tcp),
                Listener::Unix(l, _) => run_incoming!(l, Conn::Unix),
            };
            if !ok {
                break;
            }
            let _ = si == last;
        }
    }
    book.borrow_mut().done = true;
    // from here on the yielded connections are let go (the clients see the end of their stream and
    // finish); the listener stays open until the harness has looked at the listen queue
    drop(keep);
    std::future::pending::<()>().await;
    drop(l);
}

pub fn run_accept(case: &AcceptCase) -> Outcome {
    let cfg = RtCfg::new(case.drv);
    let rt = match build_rt(&cfg) {
        Ok(rt) => rt,
        Err(e) => return Outcome::inconclusive(format!("runtime build: {e}")),
    };
    let log = SharedLog::new();
    let book = Rc::new(RefCell::new(Book::default()));
    let tmp = if case.transport == Transport::Unix { tempfile::Builder::new().prefix("c14a").tempdir().ok() } else { None };
    let tr = case.transport;
    let path = tmp.as_ref().map(|t| t.path().join("l.sock"));
    let mut mk = rt.spawn(async move {
        io::Result::Ok(match tr {
            Transport::Tcp4 => Listener::Tcp(TcpListener::bind("127.0.0.1:0").await?),
            Transport::Tcp6 => Listener::Tcp(TcpListener::bind("[::1]:0").await?),
            Transport::Unix => {
                let p = path.unwrap();
                Listener::Unix(UnixListener::bind(&p).await?, p)
            }
        })
    });
    if !drive(&rt, || mk.is_finished(), Duration::from_secs(60)) {
        return Outcome::inconclusive("watchdog: bind");
    }
    let l = match join_now(&mut mk) {
        Some(Ok(Ok(l))) => l,
        _ => return Outcome::inconclusive("listener setup failed"),
    };
    let lfd = match &l {
        Listener::Tcp(l) => l.as_raw_fd(),
        Listener::Unix(l, _) => l.as_raw_fd(),
    };
    let mut h = rt.enter(|| rt.spawn(acceptor(l, case.clone(), book.clone(), log.clone())));
    // A connection that left the listen queue must be yielded: when every started client is connected,
    // the listen queue is empty and the acceptor is nevertheless still waiting for a connection over
    // 20 consecutive loop turns, a connection was taken from the kernel and never delivered.
    let mut stalled = 0u32;
    let finished = drive(
        &rt,
        || {
            if log.failed() || h.is_finished() || book.borrow().done {
                return true;
            }
            let b = book.borrow();
            let mut pfd = libc::pollfd { fd: lfd, events: libc::POLLIN, revents: 0 };
            let queue_empty = unsafe { libc::poll(&mut pfd, 1, 0) } == 0;
            if !b.launched.is_empty() && b.clients_connected == b.launched.len() && b.accepted.len() < b.launched.len() && queue_empty {
                stalled += 1;
            } else {
                stalled = 0;
            }
            if stalled >= 20 {
                log.violate(
                    "C14/accept/connection-taken-but-never-yielded",
                    format!("{} clients are connected, the listen queue is empty, but only {} connections were yielded and the acceptor keeps waiting: {:?}", b.launched.len(), b.accepted.len(), b.accepted),
                );
                return true;
            }
            false
        },
        Duration::from_secs(std::env::var("VERIF_WATCHDOG").ok().and_then(|v| v.parse().ok()).unwrap_or(120)),
    );
    if finished && !log.failed() {
        // let the clients run to their end so that nothing is in flight when the runtime goes
        drive(&rt, || book.borrow().clients_finished >= book.borrow().clients_connected && book.borrow().clients_connected >= book.borrow().launched.len(), Duration::from_secs(20));
    }
    let panic_msg = if h.is_finished() { join_now(&mut h).and_then(|r| r.err()) } else { None };
    let lg = log.take();
    let result = if let Some((sig, detail)) = lg.violation {
        Outcome::violation(sig, detail)
    } else if let Some(e) = panic_msg {
        Outcome::violation(format!("C14/accept/{}", netlab::strip_digits(&e)), e)
    } else if !finished {
        let b = book.borrow();
        if std::env::var("VERIF_VERBOSE").is_ok() {
            eprintln!("watchdog: launched {:?} connected {} accepted {:?}", b.launched, b.clients_connected, b.accepted);
        }
        Outcome::inconclusive(format!("watchdog: launched {} connected {} accepted {}", b.launched.len(), b.clients_connected, b.accepted.len()))
    } else {
        let b = book.borrow();
        let mut seen: BTreeMap<u8, u32> = BTreeMap::new();
        for (id, _, _) in &b.accepted {
            *seen.entry(*id).or_default() += 1;
        }
        let mut bad = None;
        for (id, port) in &b.launched {
            match seen.get(id) {
                Some(1) => {
                    if case.transport != Transport::Unix {
                        let p = b.accepted.iter().find(|a| a.0 == *id).unwrap().1;
                        if p != *port {
                            bad = Some(("C14/accept/peer-port-mismatch".to_string(), format!("client {id} connected from port {port}, the accepted stream reports peer port {p}")));
                        }
                    }
                }
                Some(n) => bad = Some(("C14/accept/accepted-twice".into(), format!("client {id} was yielded {n} times: {:?}", b.accepted))),
                None => bad = Some(("C14/accept/never-accepted".into(), format!("client {id} was never yielded: {:?}", b.accepted))),
            }
        }
        for id in seen.keys() {
            if !b.launched.contains_key(id) {
                bad = Some(("C14/accept/unknown-connection".into(), format!("a connection with id {id} was yielded but never launched")));
            }
        }
        // nothing may be left in the listen queue
        let mut pfd = libc::pollfd { fd: lfd, events: libc::POLLIN, revents: 0 };
        let r = unsafe { libc::poll(&mut pfd, 1, 0) };
        if bad.is_none() && r != 0 {
            bad = Some(("C14/accept/listen-queue-not-empty".into(), format!("after all {} clients were accepted the listener is still readable (poll={r}, revents={:#x})", b.launched.len(), pfd.revents)));
        }
        match bad {
            Some((s, d)) => Outcome::violation(s, d),
            None => {
                let mut labels = vec![format!("drv:{}", case.drv.name()), format!("transport:{:?}", case.transport), format!("conns:{}", b.launched.len())];
                let kinds: std::collections::BTreeSet<&str> = b.accepted.iter().map(|a| a.2).collect();
                for k in &kinds {
                    labels.push(format!("via:{k}"));
                }
                let mut burst = 0;
                let mut run = 0;
                for a in &b.accepted {
                    if a.2 != "accept()" {
                        run += 1;
                        burst = burst.max(run);
                    } else {
                        run = 0;
                    }
                }
                if burst >= 3 {
                    labels.push("incoming-burst>=3".into());
                }
                let nontrivial = b.launched.len() >= 2 && (kinds.len() >= 2 || burst >= 2);
                Outcome::pass_owned(nontrivial, labels)
            }
        }
    };
    drop(h);
    drop(rt);
    result
}

fn step() -> impl Strategy<Value = AStep> + Clone {
    prop_oneof![
        3 => (0u8..=3).prop_map(|launch| AStep::Single { launch }),
        2 => (0u8..=6, any::<bool>()).prop_map(|(launch, cancel)| AStep::Incoming { launch, cancel }),
    ]
}

pub fn case_strategy() -> impl Strategy<Value = AcceptCase> + Clone {
    (
        prop_oneof![Just(Drv::IoUring), Just(Drv::Poll)],
        prop_oneof![2 => Just(Transport::Tcp4), 1 => Just(Transport::Tcp6), 2 => Just(Transport::Unix)],
        vec(step(), 0..=5),
        0u8..=6,
    )
        .prop_map(|(drv, transport, steps, tail_launch)| AcceptCase { drv, transport, steps, tail_launch })
}

pub fn run(s: &mut Session) {
    let mut p = Part::new(
        "C14",
        "accept",
        "case = driver {io_uring, poll} x listener {TCP v4, TCP v6, Unix} x 0-5 steps, each starting 0-6 further clients and then either accepting one connection with accept() (the rest stays \
         in the listen queue) or taking all outstanding connections from an incoming() stream (optionally under a CancelToken fired after the last one, then dropped), closed by a final incoming() stream that is dropped; at most 12 clients; every client sends its id over its connection. Oracle: multiset of ids read from the yielded \
         connections == set of started clients, peer ports equal, listen queue empty at the end. Non-trivial = >= 2 clients and (both accept styles used or an incoming() stream yielded >= 2 \
         connections in a row); distinct = distinct serialised case.",
    );
    p.quick_cases = 4000;
    p.thorough_cases = 30000;
    p.threads = 4;
    p.max_shrink_iters = 300;
    p.assumptions = vec![
        "an incoming()/multishot accept stream is only dropped when no started client is still unaccepted (a connection taken by a multishot that is being dropped is legitimately closed)",
        "the cancellation of a dropped multishot accept takes effect before operations submitted later on the same ring / synchronously on the polling driver (clients of the next step are started through the same runtime afterwards)",
    ];
    p.regressions = vec![(
        "mixed",
        AcceptCase {
            drv: Drv::IoUring,
            transport: Transport::Tcp4,
            steps: vec![AStep::Single { launch: 3 }, AStep::Incoming { launch: 2, cancel: true }, AStep::Single { launch: 1 }],
            tail_launch: 4,
        },
    )];
    s.run_part(p, case_strategy(), run_accept);
}
