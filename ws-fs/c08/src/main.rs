//! C08 — file and pipe I/O matches the OS, identically on every driver (DESIGN.md §3 C08).
//!
//! Three-way differential: every generated program runs (a) through a synchronous reference
//! interpreter (std::fs + libc), (b) through compio-fs on a runtime with the io_uring driver and
//! (c) on a runtime with the polling driver (file operations take the thread-pool fallback), each in
//! its own sibling directory.  Per step the result (count / errno), the returned buffers (length and
//! whole capacity region) and metadata are compared, at the end the three directory trees.
mod bufs;
mod cexec;
mod prog;
mod refexec;

use std::{
    collections::BTreeMap,
    os::unix::fs::{MetadataExt, PermissionsExt},
    path::{Path, PathBuf},
    sync::atomic::{AtomicU64, Ordering},
};

use bufs::*;
use compio_driver::DriverType;
use prog::*;
use vcore::{
    proptest::{self, collection::vec, prelude::*},
    Outcome, Part, Session,
};

// ------------------------------------------------------------------------------------------------
// final state of a directory tree

#[derive(Debug, PartialEq, Clone)]
struct Entry {
    ftype: String,
    mode: u32,
    nlink: u64,
    /// file length (0 for directories)
    len: u64,
    /// file bytes (first MiB) or symlink target
    content: Vec<u8>,
}

fn walk(root: &Path, rel: &Path, out: &mut BTreeMap<String, Entry>) -> std::io::Result<()> {
    let mut names: Vec<_> = std::fs::read_dir(root.join(rel))?.collect::<Result<Vec<_>, _>>()?;
    names.sort_by_key(|e| e.file_name());
    for e in names {
        let relp = rel.join(e.file_name());
        let full = root.join(&relp);
        let m = std::fs::symlink_metadata(&full)?;
        let ft = m.file_type();
        let content = if ft.is_symlink() {
            use std::os::unix::ffi::OsStrExt;
            std::fs::read_link(&full)?.as_os_str().as_bytes().to_vec()
        } else if ft.is_file() {
            use std::io::Read;
            let mut v = vec![];
            std::fs::File::open(&full)?.take(1 << 20).read_to_end(&mut v)?;
            v
        } else {
            vec![]
        };
        out.insert(
            relp.to_string_lossy().into_owned(),
            Entry { ftype: ftype_name(&ft).into(), mode: m.mode() & 0o7777, nlink: m.nlink(), len: if ft.is_dir() { 0 } else { m.len() }, content },
        );
        if ft.is_dir() {
            walk(root, &relp, out)?;
        }
    }
    Ok(())
}

/// make everything traversable again (a non-root run could have locked itself out), then delete
fn cleanup(base: &Path) {
    fn unlock(p: &Path) {
        if let Ok(m) = std::fs::symlink_metadata(p) {
            if m.file_type().is_dir() {
                let _ = std::fs::set_permissions(p, std::fs::Permissions::from_mode(0o755));
                if let Ok(rd) = std::fs::read_dir(p) {
                    for e in rd.flatten() {
                        unlock(&e.path());
                    }
                }
            }
        }
    }
    unlock(base);
    let _ = std::fs::remove_dir_all(base);
}

struct CaseDir(PathBuf);

impl Drop for CaseDir {
    fn drop(&mut self) {
        cleanup(&self.0);
    }
}

static CASE_NO: AtomicU64 = AtomicU64::new(0);

// ------------------------------------------------------------------------------------------------
// comparison

fn show_bytes(b: &[u8]) -> String {
    let head: Vec<String> = b.iter().take(48).map(|x| format!("{x:02x}")).collect();
    format!("[{}{}] ({} bytes)", head.join(" "), if b.len() > 48 { " …" } else { "" }, b.len())
}

fn first_diff(a: &[u8], b: &[u8]) -> usize {
    a.iter().zip(b.iter()).position(|(x, y)| x != y).unwrap_or(a.len().min(b.len()))
}

fn compare_step(i: usize, step: &Step, want: &Obs, got: &Obs, drv: &str) -> Option<(String, String)> {
    let op = step.name();
    let head = format!("step #{i} {step:?} on the {drv} driver");
    // shape of a known finding: a vectored read whose iovecs cover only the initialised parts
    let known_shape = |n: &Res, m: &Res| {
        Some((
            format!("C08/vectored-read/reads-only-into-initialised-part/{drv}"),
            format!("{head}: the OS call gives {n:?} using the capacity of the members; compio gives {m:?}, exactly what the OS answers for iovecs over the initialised parts only"),
        ))
    };
    if let (Obs::OpAlt { main, alt_res, alt_bufs }, Obs::Op { res: m, bufs: gb, .. }) = (want, got) {
        if let Obs::Op { res: n, bufs: wb, .. } = &**main {
            if (!res_eq(n, m) || wb != gb) && res_eq(alt_res, m) && alt_bufs == gb {
                return known_shape(n, m);
            }
        }
    }
    if let (Step::PipeReadV { bufs, .. }, Obs::Op { res: Ok(n), bufs: wb, .. }, Obs::Op { res: Ok(m), bufs: gb, .. }) = (step, want, got) {
        let before: Vec<BufObs> = mk_members(bufs).iter().map(obs_vec).collect();
        // the delivered bytes sit at the start of the capacity regions, in member order
        let mut data = vec![];
        let mut rem = *n as usize;
        for b in wb {
            let k = b.cap.len().min(rem);
            data.extend_from_slice(&b.cap[..k]);
            rem -= k;
        }
        let (alt_n, alt) = after_readv_init_only(&before, &data);
        if (wb != gb || n != m) && *m as usize == alt_n && *gb == alt {
            return known_shape(&Ok(*n), &Ok(*m));
        }
    }
    let want = want.main();
    match (want, got) {
        (Obs::Skip(a), Obs::Skip(b)) if a == b => None,
        (Obs::Op { res: r1, bufs: b1, meta: m1, data: d1 }, Obs::Op { res: r2, bufs: b2, meta: m2, data: d2 }) => {
            if !res_eq(r1, r2) {
                // the kernel checks "negative offset" at a different point in the system-call path and in
                // the io_uring path, so an operation that is invalid for a second reason too (wrong open
                // mode, directory, ...) may report either errno: both must fail, the errno is not compared
                let negative = step_pos(step).map(|p| p >= 1 << 63 && p != u64::MAX).unwrap_or(false);
                if negative && r1.is_err() && r2.is_err() {
                    return None;
                }
                // a zero-length read of a *directory* handle: read(2)/pread(2) reach the directory's read
                // method (EISDIR), io_uring's iterator loop transfers nothing and reports 0 — kernel, not compio
                if let (Err(e), Ok(0)) = (r1, r2) {
                    let zero = b1.iter().all(|b| b.cap.is_empty()) || matches!(step, Step::ReadAt { buf, .. } if geom(buf).rlen == 0);
                    if e.errno == Some(libc::EISDIR) && zero && matches!(step, Step::ReadAt { .. } | Step::ReadVAt { .. }) {
                        return None;
                    }
                }
                let what = match (step, r1, r2) {
                    (_, Err(_), Ok(_)) if step_pos(step) == Some(u64::MAX) => "offset-u64max-accepted",
                    _ => "result",
                };
                let group = match what {
                    "reads-only-into-initialised-part" => "vectored-read",
                    "offset-u64max-accepted" => "positional",
                    _ => op,
                };
                return Some((format!("C08/{group}/{what}/{drv}"), format!("{head}: the OS call gives {r1:?}, compio gives {r2:?}")));
            }
            if b1.len() != b2.len() {
                return Some((format!("C08/{op}/buf-count/{drv}"), format!("{head}: {} buffers expected, {} returned", b1.len(), b2.len())));
            }
            for (k, (x, y)) in b1.iter().zip(b2.iter()).enumerate() {
                if x.len != y.len {
                    return Some((
                        format!("C08/{op}/buf-len/{drv}"),
                        format!("{head}: result {r1:?}; buffer #{k} should have length {} (capacity {}), compio returned length {}", x.len, x.cap.len(), y.len),
                    ));
                }
                if x.cap != y.cap {
                    let at = first_diff(&x.cap, &y.cap);
                    return Some((
                        format!("C08/{op}/buf-content/{drv}"),
                        format!(
                            "{head}: result {r1:?}; buffer #{k} capacity region differs at byte {at}: expected {} got {}",
                            show_bytes(&x.cap[at..]),
                            show_bytes(&y.cap[at.min(y.cap.len())..])
                        ),
                    ));
                }
            }
            if m1 != m2 {
                return Some((format!("C08/{op}/metadata/{drv}"), format!("{head}: std reports {m1:?}, compio reports {m2:?}")));
            }
            if d1 != d2 {
                return Some((
                    format!("C08/{op}/data/{drv}"),
                    format!("{head}: std read {}, compio read {}", show_bytes(d1.as_deref().unwrap_or(&[])), show_bytes(d2.as_deref().unwrap_or(&[]))),
                ));
            }
            None
        }
        _ => Some((format!("C08/{op}/applicability/{drv}"), format!("{head}: reference {want:?}, compio {got:?}"))),
    }
}

fn step_pos(step: &Step) -> Option<u64> {
    match step {
        Step::ReadAt { pos, .. } | Step::WriteAt { pos, .. } | Step::ReadVAt { pos, .. } | Step::WriteVAt { pos, .. } => Some(pos.value()),
        _ => None,
    }
}

fn compare_trees(want: &BTreeMap<String, Entry>, got: &BTreeMap<String, Entry>, drv: &str) -> Option<(String, String)> {
    let wn: Vec<&String> = want.keys().collect();
    let gn: Vec<&String> = got.keys().collect();
    if wn != gn {
        return Some((format!("C08/final-state/entries/{drv}"), format!("reference tree has {wn:?}, {drv} tree has {gn:?}")));
    }
    for (name, w) in want {
        let g = &got[name];
        let aspect = if w.ftype != g.ftype {
            "type"
        } else if w.mode != g.mode {
            "permissions"
        } else if w.nlink != g.nlink {
            "link-count"
        } else if w.len != g.len {
            "length"
        } else if w.content != g.content {
            "content"
        } else {
            continue;
        };
        let extra = if aspect == "content" {
            let at = first_diff(&w.content, &g.content);
            format!(" (first difference at byte {at}: expected {} got {})", show_bytes(&w.content[at..]), show_bytes(&g.content[at.min(g.content.len())..]))
        } else {
            String::new()
        };
        return Some((
            format!("C08/final-state/{aspect}/{drv}"),
            format!(
                "'{name}': reference {{type {}, mode {:o}, nlink {}, len {}}} vs {drv} {{type {}, mode {:o}, nlink {}, len {}}}{extra}",
                w.ftype, w.mode, w.nlink, w.len, g.ftype, g.mode, g.nlink, g.len
            ),
        ));
    }
    None
}

// ------------------------------------------------------------------------------------------------
// interpreter

static KNOWN: std::sync::OnceLock<Known> = std::sync::OnceLock::new();

fn run_case(original: &Prog) -> Outcome {
    let (prog, replaced) = original.effective(KNOWN.get().copied().unwrap_or_default());
    let prog = &prog;
    let n = CASE_NO.fetch_add(1, Ordering::Relaxed);
    let base = std::env::temp_dir().join(format!("verif-c08-{}-{n}", std::process::id()));
    let guard = CaseDir(base.clone());
    for d in ["ref", "iour", "poll"] {
        if let Err(e) = std::fs::create_dir_all(base.join(d)) {
            return Outcome::inconclusive(format!("cannot create case directory: {e}"));
        }
    }
    let mut tolerated = 0usize;
    let (want, facts) = refexec::run_ref(prog, &base.join("ref"));
    let mut want_tree = BTreeMap::new();
    if let Err(e) = walk(&base.join("ref"), Path::new(""), &mut want_tree) {
        return Outcome::inconclusive(format!("walking the reference tree: {e}"));
    }
    for (drv, ty) in [("iour", DriverType::IoUring), ("poll", DriverType::Poll)] {
        if prog.poll_only && drv == "iour" {
            continue;
        }
        let got = match cexec::run_compio(prog, &base.join(drv), ty) {
            Ok(g) => g,
            Err(e) => return Outcome::inconclusive(e),
        };
        for (i, (step, (w, g))) in prog.steps.iter().zip(want.iter().zip(got.iter())).enumerate() {
            if *g == Obs::Hung {
                return Outcome::inconclusive(format!("watchdog: {} on {drv} did not finish", step.name()));
            }
            if let Some((sig, detail)) = compare_step(i, step, w, g, drv) {
                let known = KNOWN.get().copied().unwrap_or_default();
                if known.readv_spare && !original.keep_known && matches!(step, Step::ReadVAt { .. }) && sig == "C08/vectored-read/reads-only-into-initialised-part/iour" {
                    tolerated += 1;
                    continue;
                }
                return Outcome::violation(sig, detail);
            }
        }
        if got.len() != want.len() {
            return Outcome::inconclusive(format!("{drv}: executed {} of {} steps", got.len(), want.len()));
        }
        let mut tree = BTreeMap::new();
        if let Err(e) = walk(&base.join(drv), Path::new(""), &mut tree) {
            return Outcome::inconclusive(format!("walking the {drv} tree: {e}"));
        }
        if let Some((sig, detail)) = compare_trees(&want_tree, &tree, drv) {
            return Outcome::violation(sig, detail);
        }
    }
    drop(guard);

    // ---- labels and the non-triviality rule
    let mut labels = facts.labels.clone();
    for (step, o) in prog.steps.iter().zip(want.iter()) {
        match o.main() {
            Obs::Skip(why) => labels.push(format!("skip:{why}")),
            Obs::Op { res, .. } => {
                labels.push(format!("op:{}", step.name()));
                if let (Step::ReadAt { buf, .. } | Step::WriteAt { buf, .. } | Step::PipeRead { buf, .. } | Step::PipeWrite { buf, .. }, Ok(_)) = (step, res) {
                    let g = geom(buf);
                    let shape = match buf.kind {
                        BufKind::Vec if g.root.len == 0 && g.rlen > 0 => "vec-len0",
                        BufKind::Vec if g.root.len == g.rlen => "vec-len=cap",
                        BufKind::Vec => "vec-len<cap",
                        BufKind::Array => "array",
                        BufKind::ArrayVec => "arrayvec",
                        BufKind::Slice { .. } => "slice",
                        BufKind::Uninit => "uninit",
                    };
                    labels.push(format!("shape:{shape}"));
                    if g.rlen == 0 {
                        labels.push("shape:zero-capacity-region".into());
                    }
                }
                if let (Step::ReadAt { pos, .. } | Step::WriteAt { pos, .. } | Step::ReadVAt { pos, .. } | Step::WriteVAt { pos, .. }, _) = (step, res) {
                    labels.push(
                        match pos {
                            Pos::At(_) => "pos:near",
                            Pos::Far(_) => "pos:far",
                            Pos::Edge(_) => "pos:edge",
                        }
                        .into(),
                    );
                }
            }
            Obs::Hung | Obs::OpAlt { .. } => {}
        }
    }
    if facts.read_hit {
        labels.push("read-returns-written-bytes".into());
    }
    if replaced > 0 {
        labels.push("excluded-known-shape-replaced".into());
    }
    if tolerated > 0 {
        labels.push("known-finding-tolerated:file-readv-spare-capacity-on-iour".into());
    }
    labels.sort();
    labels.dedup();
    let nontrivial = facts.read_hit || facts.vectored_span || facts.beyond_eof;
    Outcome::pass_owned(nontrivial, labels)
}

// ------------------------------------------------------------------------------------------------
// generators

fn size_strategy() -> impl Strategy<Value = u16> + Clone {
    prop_oneof![3 => Just(0u16), 8 => 1u16..=48, 1 => 3000u16..=9000]
}

fn kind_strategy() -> impl Strategy<Value = BufKind> + Clone {
    prop_oneof![
        5 => Just(BufKind::Vec),
        1 => Just(BufKind::Array),
        1 => Just(BufKind::ArrayVec),
        2 => (any::<u16>(), proptest::option::weighted(0.6, any::<u16>())).prop_map(|(begin, end)| BufKind::Slice { begin, end }),
        2 => Just(BufKind::Uninit),
    ]
}

fn buf_strategy() -> impl Strategy<Value = BufSpec> + Clone {
    (kind_strategy(), size_strategy(), size_strategy(), any::<u8>()).prop_map(|(kind, len, spare, seed)| BufSpec { kind, len, spare, seed })
}

fn vbuf_strategy() -> impl Strategy<Value = VSpec> + Clone {
    let member = (prop_oneof![2 => Just(0u8), 5 => 1u8..=20], prop_oneof![2 => Just(0u8), 5 => 1u8..=20]);
    (prop_oneof![3 => Just(VCont::VecOfVec), 1 => Just(VCont::Arr2), 1 => Just(VCont::Arr3)], vec(member, 0..=5), any::<u8>())
        .prop_map(|(cont, members, seed)| VSpec { cont, members, seed })
}

fn pos_strategy() -> impl Strategy<Value = Pos> + Clone {
    prop_oneof![
        3 => Just(Pos::At(0)),
        6 => (0u16..=120).prop_map(Pos::At),
        2 => (0u16..=5000).prop_map(Pos::Far),
        1 => (0u8..EDGES.len() as u8).prop_map(Pos::Edge),
    ]
}

fn path_strategy() -> impl Strategy<Value = u8> + Clone {
    prop_oneof![4 => 0u8..3, 3 => 0u8..PATHS.len() as u8]
}

fn opts_strategy() -> impl Strategy<Value = Opts> + Clone {
    (
        prop_oneof![6 => Just(Via::Options), 1 => Just(Via::FileOpen), 2 => Just(Via::FileCreate)],
        (proptest::bool::weighted(0.75), proptest::bool::weighted(0.75), proptest::bool::weighted(0.6), proptest::bool::weighted(0.2), proptest::bool::weighted(0.15)),
        prop_oneof![8 => Just(Custom::None), 2 => Just(Custom::Append), 1 => Just(Custom::NoFollow), 1 => Just(Custom::Directory), 1 => Just(Custom::AccWrOnly), 1 => Just(Custom::AccRdWr), 1 => Just(Custom::AccRdWrAppend)],
        proptest::option::weighted(0.3, prop_oneof![Just(0o600u16), Just(0o644), Just(0o444), Just(0o000), Just(0o755), Just(0o777)]),
    )
        .prop_map(|(via, (read, write, create, truncate, create_new), custom, mode)| Opts { via, read, write, create, truncate, create_new, custom, mode })
}

fn mode_strategy() -> impl Strategy<Value = u16> + Clone {
    prop_oneof![Just(0o600u16), Just(0o644), Just(0o444), Just(0o000), Just(0o755), Just(0o777), Just(0o4755), Just(0o1777)]
}

fn step_strategy() -> impl Strategy<Value = Step> + Clone {
    // nested unions of <= 10 arms each (larger unions are boxed by proptest and lose `Send`)
    let h = any::<u16>();
    let file_ops = prop_oneof![
        12 => (path_strategy(), opts_strategy()).prop_map(|(path, opts)| Step::Open { path, opts }),
        3 => h.prop_map(|h| Step::Close { h }),
        10 => (h, buf_strategy(), pos_strategy()).prop_map(|(h, buf, pos)| Step::ReadAt { h, buf, pos }),
        12 => (h, buf_strategy(), pos_strategy()).prop_map(|(h, buf, pos)| Step::WriteAt { h, buf, pos }),
        7 => (h, vbuf_strategy(), pos_strategy()).prop_map(|(h, bufs, pos)| Step::ReadVAt { h, bufs, pos }),
        7 => (h, vbuf_strategy(), pos_strategy()).prop_map(|(h, bufs, pos)| Step::WriteVAt { h, bufs, pos }),
        4 => (h, pos_strategy()).prop_map(|(h, size)| Step::SetLen { h, size }),
        1 => (h, any::<bool>()).prop_map(|(h, data)| Step::Sync { h, data }),
        3 => h.prop_map(|h| Step::Meta { h }),
        1 => (h, mode_strategy()).prop_map(|(h, mode)| Step::SetPerm { h, mode }),
    ];
    let path_ops = prop_oneof![
        3 => (path_strategy(), any::<bool>()).prop_map(|(path, follow)| Step::PathMeta { path, follow }),
        1 => (path_strategy(), mode_strategy()).prop_map(|(path, mode)| Step::PathSetPerm { path, mode }),
        3 => path_strategy().prop_map(|path| Step::CreateDir { path }),
        2 => path_strategy().prop_map(|path| Step::CreateDirAll { path }),
        2 => path_strategy().prop_map(|path| Step::RemoveFile { path }),
        1 => path_strategy().prop_map(|path| Step::RemoveDir { path }),
        2 => (path_strategy(), path_strategy()).prop_map(|(from, to)| Step::Rename { from, to }),
        2 => (path_strategy(), path_strategy()).prop_map(|(from, to)| Step::HardLink { from, to }),
        2 => (0u8..TARGETS.len() as u8, path_strategy()).prop_map(|(target, link)| Step::Symlink { target, link }),
    ];
    let misc_ops = prop_oneof![
        3 => path_strategy().prop_map(|path| Step::FsRead { path }),
        3 => (path_strategy(), buf_strategy()).prop_map(|(path, buf)| Step::FsWrite { path, buf }),
        3 => Just(Step::PipeNew),
        8 => (h, buf_strategy()).prop_map(|(p, buf)| Step::PipeWrite { p, buf }),
        5 => (h, vbuf_strategy()).prop_map(|(p, bufs)| Step::PipeWriteV { p, bufs }),
        7 => (h, buf_strategy()).prop_map(|(p, buf)| Step::PipeRead { p, buf }),
        5 => (h, vbuf_strategy()).prop_map(|(p, bufs)| Step::PipeReadV { p, bufs }),
        1 => h.prop_map(|p| Step::PipeCloseTx { p }),
        1 => h.prop_map(|p| Step::PipeCloseRx { p }),
    ];
    prop_oneof![60 => file_ops, 18 => path_ops, 38 => misc_ops]
}

fn rw_create(path: u8) -> Step {
    Step::Open { path, opts: Opts { via: Via::Options, read: true, write: true, create: true, truncate: false, create_new: false, custom: Custom::None, mode: None } }
}

fn case_strategy() -> impl Strategy<Value = Prog> + Clone {
    // a short prologue (0-2 files opened read+write+create, optionally a pipe) makes the handle tables
    // non-empty early; the body is unconstrained
    (proptest::bool::weighted(0.15), 0usize..=2, proptest::bool::weighted(0.5), vec(step_strategy(), 1..=22)).prop_map(|(small_queue, nopen, pipe, body)| {
        let mut steps = vec![];
        for i in 0..nopen {
            steps.push(rw_create(i as u8));
        }
        if pipe {
            steps.push(Step::PipeNew);
        }
        steps.extend(body);
        Prog { small_queue, keep_known: false, poll_only: false, steps }
    })
}

fn vecbuf(len: u16, spare: u16, seed: u8) -> BufSpec {
    BufSpec { kind: BufKind::Vec, len, spare, seed }
}

fn main() {
    let mut s = Session::new();
    let mut p = Part::new(
        "C08",
        "programs",
        "case = program of 1-25 steps over one temp directory (12 relative names, <=4 open files, <=2 anonymous pipes): open/create with generated \
         OpenOptions (read/write/create/truncate/create_new, O_APPEND/O_NOFOLLOW/O_DIRECTORY and access-mode bits in custom_flags, mode; File::open/create), close, read_at/write_at with \
         buffer shapes Vec len<cap / len=cap / len=0, [u8;24], ArrayVec, Slice(begin..end|begin..), Uninit (spare capacity only), sizes 0..48 and 3-9 KiB, \
         read_vectored_at/write_vectored_at over Vec<Vec<u8>>/[Vec<u8>;2]/[Vec<u8>;3] with 0-5 members incl. empty ones, offsets 0..120, 65000+x and \
         i64::MAX/2^63/u64::MAX-1/u64::MAX, set_len, sync_all/sync_data, metadata, set_permissions (handle and path), create_dir(_all), remove_file/dir, \
         rename, hard_link, symlink, fs::read, fs::write, pipe::anonymous read/write/read_vectored/write_vectored/close of either end (only steps that cannot block). \
         Each program runs on the reference interpreter (std::fs+libc), on a compio runtime with io_uring and on one with the polling driver. \
         Non-trivial = a read returned bytes written earlier in the program, or a vectored operation spanned >= 2 non-empty members, or a \
         positional operation was at/beyond EOF; distinct = distinct serialised program.",
    );
    p.quick_cases = 2000;
    p.thorough_cases = 40_000;
    p.threads = 8;
    p.max_shrink_iters = 600;
    p.assumptions = vec![
        "pipe steps that would block (read on an empty pipe with a live writer, write beyond 4 KiB / 8 unread writes) are skipped by construction",
        "sequential (cursor based) I/O exists only for pipes: compio-fs File is positional by design and the polling driver cannot register regular files for readiness",
        "timestamps, inode numbers, directory sizes and error text are not compared; errors are compared by raw errno",
    ];
    let golden = |small_queue: bool, steps: Vec<Step>| Prog { small_queue, keep_known: false, poll_only: false, steps };
    let finding = |poll_only: bool, steps: Vec<Step>| Prog { small_queue: false, keep_known: true, poll_only, steps };
    let uninit = |len, spare, seed| BufSpec { kind: BufKind::Uninit, len, spare, seed };
    p.regressions = vec![
        (
            "write-then-read-all-shapes",
            golden(
                false,
                vec![
                    rw_create(0),
                    Step::WriteAt { h: 0, buf: vecbuf(20, 5, 3), pos: Pos::At(0) },
                    Step::ReadAt { h: 0, buf: vecbuf(4, 10, 9), pos: Pos::At(2) },
                    Step::ReadAt { h: 0, buf: uninit(4, 10, 9), pos: Pos::At(2) },
                    Step::ReadAt { h: 0, buf: BufSpec { kind: BufKind::Slice { begin: 40000, end: None }, len: 6, spare: 10, seed: 9 }, pos: Pos::At(5) },
                    Step::ReadAt { h: 0, buf: BufSpec { kind: BufKind::Array, len: 0, spare: 0, seed: 1 }, pos: Pos::At(0) },
                    Step::ReadVAt { h: 0, bufs: VSpec { cont: VCont::VecOfVec, members: vec![(4, 0), (0, 0), (8, 0)], seed: 7 }, pos: Pos::At(1) },
                    Step::ReadVAt { h: 0, bufs: VSpec { cont: VCont::Arr2, members: vec![(3, 0), (9, 0)], seed: 7 }, pos: Pos::At(0) },
                    Step::ReadAt { h: 0, buf: vecbuf(0, 8, 0), pos: Pos::Far(10) },
                    Step::WriteVAt { h: 0, bufs: VSpec { cont: VCont::Arr3, members: vec![(5, 2), (0, 0), (7, 0)], seed: 11 }, pos: Pos::Far(3) },
                    Step::SetLen { h: 0, size: Pos::At(70) },
                    Step::Meta { h: 0 },
                    Step::FsRead { path: 0 },
                ],
            ),
        ),
        (
            "pipe-roundtrip",
            golden(
                true,
                vec![
                    Step::PipeNew,
                    Step::PipeWriteV { p: 0, bufs: VSpec { cont: VCont::Arr3, members: vec![(5, 2), (0, 0), (7, 0)], seed: 11 } },
                    Step::PipeReadV { p: 0, bufs: VSpec { cont: VCont::VecOfVec, members: vec![(3, 0), (5, 0), (20, 0)], seed: 2 } },
                    Step::PipeWrite { p: 0, buf: vecbuf(9, 0, 4) },
                    Step::PipeCloseTx { p: 0 },
                    Step::PipeRead { p: 0, buf: uninit(3, 30, 5) },
                    Step::PipeRead { p: 0, buf: vecbuf(0, 8, 0) },
                ],
            ),
        ),
        // ---- reproduction cases of the findings (see notes/C08.md); they pass once the defects are repaired
        (
            "finding-readv-spare-capacity-iour",
            finding(
                false,
                vec![
                    rw_create(0),
                    Step::WriteAt { h: 0, buf: vecbuf(20, 0, 3), pos: Pos::At(0) },
                    Step::ReadVAt { h: 0, bufs: VSpec { cont: VCont::VecOfVec, members: vec![(0, 4), (2, 6)], seed: 7 }, pos: Pos::At(1) },
                ],
            ),
        ),
        (
            "finding-pipe-readv-spare-capacity-poll",
            finding(
                true,
                vec![
                    Step::PipeNew,
                    Step::PipeWrite { p: 0, buf: vecbuf(12, 0, 4) },
                    Step::PipeReadV { p: 0, bufs: VSpec { cont: VCont::Arr2, members: vec![(1, 4), (0, 20)], seed: 2 } },
                ],
            ),
        ),
        (
            "finding-offset-u64max-iour",
            finding(
                false,
                vec![
                    rw_create(0),
                    Step::WriteAt { h: 0, buf: vecbuf(10, 0, 3), pos: Pos::At(0) },
                    Step::ReadAt { h: 0, buf: vecbuf(0, 8, 0), pos: Pos::Edge(3) },
                ],
            ),
        ),
    ];
    let ks = s.known_signatures("C08");
    let _ = KNOWN.set(Known {
        readv_spare: ks.iter().any(|k| k.contains("/reads-only-into-initialised-part/")),
        off_max: ks.iter().any(|k| k.contains("/offset-u64max-accepted/")),
    });
    s.run_part(p, case_strategy(), run_case);
    s.finish();
}
