//! Case type and generator of C16.

use serde::{Deserialize, Serialize};
use vcore::{
    mono_range,
    proptest::{collection::vec, prelude::*},
};

#[derive(Debug, Clone, Serialize, Deserialize)]
pub enum WOp {
    /// `AsyncWrite::write` of at most n bytes (may be accepted partially)
    Write(u16),
    /// `AsyncWriteExt::write_all` of n bytes
    WriteAll(u16),
    /// `write_chunks` with these chunk sizes (a prefix may be accepted)
    Chunks(Vec<u16>),
    /// `write_all_chunks` with these chunk sizes
    AllChunks(Vec<u16>),
}

#[derive(Debug, Clone, Serialize, Deserialize)]
pub enum ROp {
    /// `AsyncRead::read` into a `Vec` of this capacity
    Read(u16),
    /// `read_chunk(max, ordered = true)`
    Chunk(u16),
    /// `read_chunks` with that many slots
    Chunks(u8),
    /// `read_to_end` (terminal)
    ToEnd,
    /// `read_to_end` into `Vec::with_capacity(cap)` (terminal)
    ToEndCap(u16),
}

#[derive(Debug, Clone, Copy, Serialize, Deserialize)]
pub enum Pace {
    Eager,
    /// yield to the harness every n-th operation
    Yield(u8),
    /// sleep 300 µs every n-th operation (slow reader / writer)
    Sleep(u8),
}

#[derive(Debug, Clone, Serialize, Deserialize)]
pub struct StreamSpec {
    pub by_client: bool,
    pub bidi: bool,
    /// raw draws mapped by `len()` / `resp_len()` into 0..=200 KiB (skewed to small)
    pub len: u16,
    pub resp: u16,
    pub wops: Vec<WOp>,
    pub rops: Vec<ROp>,
    pub wpace: Pace,
    pub rpace: Pace,
    /// explicit `finish()` + `stopped()`; otherwise the stream is finished implicitly by dropping it
    pub finish: bool,
}

fn size(raw: u16) -> usize {
    match raw {
        0..=2047 => 0,
        2048..=24575 => mono_range(((raw - 2048) as u32 * 65536 / 22528) as u16, 1, 2048),
        24576..=53247 => mono_range(((raw - 24576) as u32 * 65536 / 28672) as u16, 2049, 32 * 1024),
        _ => mono_range(((raw - 53248) as u32 * 65536 / 12288) as u16, 32 * 1024 + 1, 200 * 1024),
    }
}

impl StreamSpec {
    pub fn len(&self) -> usize {
        size(self.len)
    }

    pub fn resp_len(&self) -> usize {
        if self.bidi {
            size(self.resp)
        } else {
            0
        }
    }
}

/// position coded: every byte depends on the logical stream, the direction and its offset
pub fn payload(stream: usize, response: bool, len: usize) -> Vec<u8> {
    let tag = (stream as u32 * 2 + response as u32 + 1).wrapping_mul(0x9E37);
    (0..len).map(|i| ((i as u32).wrapping_mul(167).wrapping_add(tag) ^ (i as u32 >> 8) ^ (tag >> 8)) as u8).collect()
}

fn one_looping_reader() -> [Vec<u8>; 2] {
    [vec![0], vec![0]]
}

pub fn dgram_len(raw: u16) -> usize {
    mono_range(raw, 4, 1100)
}

/// [sender side, index lo, index hi, length low byte] + position coded body
pub fn datagram(side: usize, j: usize, len: usize) -> Vec<u8> {
    let mut d = vec![side as u8, j as u8, (j >> 8) as u8, len as u8];
    d.extend((4..len).map(|i| ((i * 13 + j * 31 + side * 7) ^ (i >> 6)) as u8));
    d.truncate(len);
    d
}

#[derive(Debug, Clone, Copy, Serialize, Deserialize)]
pub enum Win {
    Default,
    /// 1 KiB ..= 100 KiB
    Small(u16),
    /// 16 ..= 1000 bytes
    Tiny(u16),
}

impl Win {
    fn bytes(self, default: u64) -> u64 {
        match self {
            Win::Default => default,
            Win::Small(r) => mono_range(r, 1024, 100 * 1024) as u64,
            Win::Tiny(r) => mono_range(r, 16, 1000) as u64,
        }
    }
}

/// the transport configuration of one side (its windows govern what the *peer* may send)
#[derive(Debug, Clone, Copy, Serialize, Deserialize)]
pub struct TCfg {
    pub receive_window: Win,
    pub stream_receive_window: Win,
    pub send_window: Win,
    pub max_uni: u8,
    pub max_bidi: u8,
}

impl TCfg {
    pub fn conn_window(&self) -> u64 {
        self.receive_window.bytes(8 * 1_250_000)
    }

    pub fn stream_window(&self) -> u64 {
        self.stream_receive_window.bytes(1_250_000)
    }

    pub fn send_window(&self) -> u64 {
        self.send_window.bytes(8 * 1_250_000)
    }
}

#[derive(Debug, Clone, Copy, Serialize, Deserialize)]
pub enum Probe {
    /// exhaust the stream credit, then `open_*_wait()`
    OpenWaitAtLimit { bidi: bool },
    /// a stream carrying one byte and never finished: pending read on the peer, pending `stopped()` here
    IdleStream { bidi: bool },
    /// `write_all` of more than the window on a stream the peer never reads (+ `received_reset()` there)
    BlockedWrite,
    /// one more `closed()` on a clone of the connection
    Closed,
}

#[derive(Debug, Clone, Copy, Serialize, Deserialize)]
pub enum When {
    Before,
    /// when that fraction (n/256) of all stream bytes has been read
    During(u8),
    After,
}

#[derive(Debug, Clone, Copy, Serialize, Deserialize)]
pub enum What {
    Connection,
    Endpoint,
}

#[derive(Debug, Clone, Copy, Serialize, Deserialize)]
pub struct ClosePoint {
    pub when: When,
    pub what: What,
    pub by_client: bool,
}

#[derive(Debug, Clone, Serialize, Deserialize)]
pub struct QCase {
    pub iour: bool,
    /// [client, server]
    pub cfg: [TCfg; 2],
    pub streams: Vec<StreamSpec>,
    /// datagram sizes (raw) sent by [client, server]
    pub dgrams: [Vec<u16>; 2],
    /// `recv_datagram()` readers per side, each its own actor (its own waker); the value is the number of
    /// datagrams the reader takes before it ends, 0 = it keeps reading until the close
    #[serde(default = "one_looping_reader")]
    pub dgram_readers: [Vec<u8>; 2],
    /// datagrams are sent in groups of that many with non-waiting `send_datagram`, back to back (small, so
    /// that a group shares a packet); 0/1 = one at a time with `send_datagram_wait` and a short sleep between
    #[serde(default)]
    pub dgram_burst: [u8; 2],
    pub probes: [Vec<Probe>; 2],
    pub close: ClosePoint,
}

fn win() -> impl Strategy<Value = Win> + Clone {
    prop_oneof![2 => Just(Win::Default), 2 => any::<u16>().prop_map(Win::Small), 1 => any::<u16>().prop_map(Win::Tiny)]
}

fn tcfg() -> impl Strategy<Value = TCfg> + Clone {
    (win(), win(), win(), 1u8..=4, 1u8..=4).prop_map(|(receive_window, stream_receive_window, send_window, max_uni, max_bidi)| TCfg { receive_window, stream_receive_window, send_window, max_uni, max_bidi })
}

fn pace() -> impl Strategy<Value = Pace> + Clone {
    prop_oneof![3 => Just(Pace::Eager), 2 => (1u8..6).prop_map(Pace::Yield), 1 => (2u8..12).prop_map(Pace::Sleep)]
}

fn sizes() -> impl Strategy<Value = u16> + Clone {
    prop_oneof![1 => 1u16..16, 3 => 16u16..2000, 2 => 2000u16..=65535]
}

fn wop() -> impl Strategy<Value = WOp> + Clone {
    prop_oneof![
        sizes().prop_map(WOp::Write),
        sizes().prop_map(WOp::WriteAll),
        vec(sizes(), 1..5).prop_map(WOp::Chunks),
        vec(sizes(), 1..5).prop_map(WOp::AllChunks),
    ]
}

fn rop() -> impl Strategy<Value = ROp> + Clone {
    prop_oneof![4 => sizes().prop_map(ROp::Read), 3 => sizes().prop_map(ROp::Chunk), 2 => (1u8..6).prop_map(ROp::Chunks), 1 => Just(ROp::ToEnd), 1 => sizes().prop_map(ROp::ToEndCap)]
}

fn stream() -> impl Strategy<Value = StreamSpec> + Clone {
    (any::<bool>(), any::<bool>(), any::<u16>(), any::<u16>(), vec(wop(), 0..4), vec(rop(), 0..4), pace(), pace(), any::<bool>())
        .prop_map(|(by_client, bidi, len, resp, wops, rops, wpace, rpace, finish)| StreamSpec { by_client, bidi, len, resp, wops, rops, wpace, rpace, finish })
}

fn probe() -> impl Strategy<Value = Probe> + Clone {
    prop_oneof![
        2 => any::<bool>().prop_map(|bidi| Probe::OpenWaitAtLimit { bidi }),
        2 => any::<bool>().prop_map(|bidi| Probe::IdleStream { bidi }),
        2 => Just(Probe::BlockedWrite),
        // a second concurrent closed(): fixed by 53c1adf (was C16/closed/second-concurrent-call-panics)
        1 => Just(Probe::Closed),
    ]
}

pub fn strategy() -> impl Strategy<Value = QCase> + Clone {
    let when = prop_oneof![1 => Just(When::Before), 2 => (1u8..=255).prop_map(When::During), 3 => Just(When::After)];
    let close = (when, prop_oneof![Just(What::Connection), Just(What::Endpoint)], any::<bool>()).prop_map(|(when, what, by_client)| ClosePoint { when, what, by_client });
    let readers = || vec(prop_oneof![2 => Just(0u8), 4 => Just(1u8), 1 => 2u8..4], 1..=5);
    let burst = || prop_oneof![2 => Just(1u8), 3 => 2u8..=5];
    let dg = (vec(any::<u16>(), 0..10), vec(any::<u16>(), 0..10), readers(), readers(), burst(), burst());
    // a swarm: several more small, eager streams of the first stream's side and direction, so that more
    // openers than the stream limit are blocked in `open_*_wait` at once (each actor has its own waker) and
    // several credits come back close together
    let swarm = prop_oneof![3 => Just(0u8), 1 => 3u8..=8];
    (any::<bool>(), tcfg(), tcfg(), (vec(stream(), 0..6), swarm), dg, vec(probe(), 0..4), vec(probe(), 0..4), close)
        .prop_map(|(iour, a, b, (mut streams, swarm), (d0, d1, r0, r1, b0, b1), p0, p1, close)| {
            if swarm > 0 && !streams.is_empty() {
                let mut t = streams[0].clone();
                t.len = 2048 + t.len % 2000; // 1..~180 bytes
                t.resp = 2048 + t.resp % 2000;
                t.wpace = Pace::Eager;
                t.rpace = Pace::Eager;
                t.finish = true;
                for _ in 0..swarm {
                    streams.push(t.clone());
                }
            }
            bound(QCase { iour, cfg: [a, b], streams, dgrams: [d0, d1], dgram_readers: [r0, r1], dgram_burst: [b0, b1], probes: [p0, p1], close })
        })
        .sboxed()
}

/// Keep a case affordable: a payload pushed through a tiny window needs one round trip per window.
/// The window of the receiving side is raised (never the payload cut) until the stream needs at most
/// ~2500 round trips.  Pure function of the case, also applied to replayed cases.
pub fn bound(mut c: QCase) -> QCase {
    for s in &c.streams {
        for (len, recv_side) in [(s.len(), if s.by_client { 1 } else { 0 }), (s.resp_len(), if s.by_client { 0 } else { 1 })] {
            let need = (len / 2500) as u64;
            for side in [recv_side] {
                let t = &mut c.cfg[side];
                if t.conn_window() < need {
                    t.receive_window = Win::Small(u16::MAX / 2);
                }
                if t.stream_window() < need {
                    t.stream_receive_window = Win::Small(u16::MAX / 2);
                }
            }
            let t = &mut c.cfg[1 - recv_side];
            if t.send_window() < need {
                t.send_window = Win::Small(u16::MAX / 2);
            }
        }
    }
    c
}

pub fn regressions() -> Vec<(&'static str, QCase)> {
    let t = |w: Win, s: Win, n: u8| TCfg { receive_window: w, stream_receive_window: s, send_window: Win::Default, max_uni: n, max_bidi: n };
    let st = |by_client, bidi, len, resp| StreamSpec {
        by_client,
        bidi,
        len,
        resp,
        wops: vec![WOp::Write(700), WOp::Chunks(vec![10, 3000, 1]), WOp::WriteAll(5000), WOp::AllChunks(vec![100, 100])],
        rops: vec![ROp::Read(333), ROp::Chunk(4000), ROp::Chunks(3)],
        wpace: Pace::Yield(3),
        rpace: Pace::Sleep(5),
        finish: true,
    };
    let all_probes = vec![Probe::OpenWaitAtLimit { bidi: false }, Probe::OpenWaitAtLimit { bidi: true }, Probe::IdleStream { bidi: true }, Probe::BlockedWrite];
    vec![
        (
            // known finding: a second closed() while the first is pending panics
            "known-second-closed-panics",
            QCase {
                iour: true,
                cfg: [t(Win::Default, Win::Default, 2), t(Win::Default, Win::Default, 2)],
                streams: vec![st(true, false, 9000, 0)],
                dgrams: [vec![], vec![]],
                dgram_readers: one_looping_reader(),
                dgram_burst: [0, 0],
                probes: [vec![Probe::Closed], vec![]],
                close: ClosePoint { when: When::After, what: What::Connection, by_client: true },
            },
        ),
        (
            // the shapes of the pinned suite's stress tests, plus every probe kind on both sides
            "windows-37-all-probes-close-after",
            QCase {
                iour: true,
                cfg: [t(Win::Tiny(1400), Win::Tiny(1400), 1), t(Win::Tiny(1400), Win::Small(0), 1)],
                streams: vec![st(true, true, 30000, 26000), st(true, false, 26000, 0), st(false, true, 20000, 60000), st(false, false, 40000, 0)],
                dgrams: [vec![0, 30000, 65535], vec![100, 200]],
                dgram_readers: [vec![1, 1, 0], vec![1, 1, 1]],
                dgram_burst: [2, 3],
                probes: [all_probes.clone(), all_probes.clone()],
                close: ClosePoint { when: When::After, what: What::Connection, by_client: true },
            },
        ),
        (
            // more openers than the stream limit, all of one side and direction, each in its own task: every one
            // of them has to be woken when credit comes back (several credits can share one MAX_STREAMS frame)
            "swarm-of-openers-over-the-stream-limit",
            QCase {
                iour: true,
                cfg: [t(Win::Default, Win::Default, 2), t(Win::Default, Win::Default, 2)],
                streams: (0..9)
                    .map(|i| {
                        let mut s = st(i != 8, i == 8, 2100 + 40 * i as u16, 2100);
                        s.wops = vec![];
                        s.rops = vec![ROp::ToEnd];
                        s.wpace = Pace::Eager;
                        s.rpace = Pace::Eager;
                        s
                    })
                    .collect(),
                dgrams: [vec![], vec![]],
                dgram_readers: one_looping_reader(),
                dgram_burst: [0, 0],
                probes: [vec![], vec![]],
                close: ClosePoint { when: When::After, what: What::Connection, by_client: true },
            },
        ),
        (
            "endpoint-close-during-transfer",
            QCase {
                iour: false,
                cfg: [t(Win::Small(0), Win::Small(0), 2), t(Win::Small(0), Win::Tiny(30000), 2)],
                streams: vec![st(true, true, 60000, 60000), st(false, false, 62000, 0), st(true, false, 50000, 0)],
                dgrams: [vec![5, 6, 7], vec![]],
                dgram_readers: [vec![0], vec![1, 2, 1]],
                dgram_burst: [3, 0],
                probes: [all_probes.clone(), all_probes],
                close: ClosePoint { when: When::During(100), what: What::Endpoint, by_client: false },
            },
        ),
        (
            // five one-shot readers (five wakers) on each side, five small datagrams sent back to back
            "one-shot-datagram-readers-and-a-burst",
            QCase {
                iour: false,
                cfg: [t(Win::Default, Win::Default, 2), t(Win::Default, Win::Default, 2)],
                streams: vec![],
                dgrams: [vec![10, 20, 30, 40, 50], vec![60, 70, 80, 90, 100]],
                dgram_readers: [vec![1, 1, 1, 1, 1], vec![1, 1, 1, 1, 1]],
                dgram_burst: [5, 5],
                probes: [vec![], vec![]],
                close: ClosePoint { when: When::After, what: What::Connection, by_client: false },
            },
        ),
        (
            // former false alarm of the harness (a reader inside its pacing sleep when the side was judged), found
            // once closed() resolved without the drain period
            "paced-reader-at-endpoint-close",
            vcore::serde_json::from_str(include_str!("paced_reader_case.json")).expect("embedded regression case"),
        ),
    ]
}
