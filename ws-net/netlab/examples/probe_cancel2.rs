use compio_net::TcpListener;
use compio_runtime::{CancelToken, FutureExt as _};
fn main() {
    let poll = std::env::args().nth(1).as_deref() == Some("poll");
    let mut b = compio_driver::ProactorBuilder::new();
    b.driver_type(if poll { compio_driver::DriverType::Poll } else { compio_driver::DriverType::IoUring });
    let rt = compio_runtime::RuntimeBuilder::new().with_proactor(b).build().unwrap();
    rt.block_on(async {
        let l = TcpListener::bind("127.0.0.1:0").await.unwrap();
        let ct = CancelToken::new();
        let ct2 = ct.clone();
        let l2 = l.clone();
        let which = std::env::args().nth(2).unwrap_or_default();
        let addr = l.local_addr().unwrap();
        let c = compio_net::TcpStream::connect(addr).await.unwrap();
        let (srv, _) = l.accept().await.unwrap();
        let h = compio_runtime::spawn(async move {
            let _keep = c;
            if which == "read" {
                use compio_io::AsyncRead;
                let mut srv = srv;
                srv.read(Vec::with_capacity(10)).with_cancel(ct2).await.0.map(|_| ())
            } else {
                l2.accept().with_cancel(ct2).await.map(|_| ())
            }
        });
        // let the accept get submitted
        let yields: usize = std::env::args().nth(3).and_then(|s| s.parse().ok()).unwrap_or(3);
        for _ in 0..yields { compio_runtime::spawn(async {}).await.unwrap(); }
        ct.cancel();
        println!("cancelled, waiting");
        println!("accept after cancel: {:?}", h.await.unwrap());
    });
}
