use std::{
    collections::{HashMap, HashSet},
    io,
    mem::MaybeUninit,
    net::{TcpListener, TcpStream},
    os::fd::{AsFd, AsRawFd, BorrowedFd, FromRawFd, OwnedFd, RawFd},
    sync::{
        atomic::{AtomicBool, AtomicUsize, Ordering},
        Arc, Mutex,
    },
    task::{Wake, Waker},
    thread::ThreadId,
    time::{Duration, Instant},
};

use compio_buf::{BufResult, IntoInner, IoBuf, IoBufMut, SetLen};
use compio_driver::{
    op::{Accept, AcceptMulti, Asyncify, Interest, PollOnce, Read, ReadAt, Recv, RecvFlags, SendFlags, SendZc},
    verif::{set_sink, Event, SubmitPath},
    Cancel, DriverType, Extra, Key, OpCode, Proactor, ProactorBuilder, PushEntry, SharedFd,
};
use serde::{Deserialize, Serialize};
use vcore::{
    mono_ix, mono_range,
    proptest::{collection::vec, prelude::*},
    Outcome,
};

#[derive(Debug, Clone, Copy, PartialEq, Eq)]
pub enum Mode {
    C01,
    C02,
    C05,
}

impl Mode {
    fn name(self) -> &'static str {
        match self {
            Mode::C01 => "C01",
            Mode::C02 => "C02",
            Mode::C05 => "C05",
        }
    }
}

pub fn assumptions() -> Vec<&'static str> {
    vec![
        "the kernel (io_uring, epoll, socket and pipe semantics) is trusted",
        "drop / cancel points are the API-step boundaries of the lab, not arbitrary instructions",
        "kernel-internal completion order between several reads pending on one descriptor is not controlled: the data oracle is a partition predicate over the position-coded stream",
        "liveness is bounded progress: an awaited event supplied by the lab must complete the operation within 30 polls of <=100 ms (300 for pool jobs)",
    ]
}

// ------------------------------------------------------------------------------------------------
// global log (hook events from any thread + lab-side facts), in one total order

#[derive(Debug, Clone)]
pub enum Item {
    Hook(Event, ThreadId),
    BufDrop { buf: u32 },
    BufReturned { buf: u32 },
    FdClose { res: usize },
    Hold { op: usize },
    Release { op: usize },
    /// the lab dropped the Proactor here
    DriverDropped,
}

static LOG: Mutex<Vec<Item>> = Mutex::new(Vec::new());
static QUARANTINE: Mutex<Vec<(u32, Vec<u8>)>> = Mutex::new(Vec::new());

fn log(i: Item) {
    LOG.lock().unwrap_or_else(|e| e.into_inner()).push(i);
}

fn log_len() -> usize {
    LOG.lock().unwrap_or_else(|e| e.into_inner()).len()
}

fn log_since(pos: usize) -> Vec<Item> {
    LOG.lock().unwrap_or_else(|e| e.into_inner())[pos..].to_vec()
}

fn sink(e: Event) {
    log(Item::Hook(e, std::thread::current().id()));
}

pub fn install_sink() {
    set_sink(Some(sink));
}

const CANARY: u8 = 0xCD;
const F_MORE: u32 = 2;
const F_NOTIF: u32 = 8;

// ------------------------------------------------------------------------------------------------
// tracked buffer and descriptor

pub struct TBuf {
    id: u32,
    mem: Vec<u8>,
    len: usize,
}

impl TBuf {
    fn new(id: u32, cap: usize) -> Self {
        TBuf { id, mem: vec![0xEE; cap], len: 0 }
    }

    fn with_data(id: u32, data: Vec<u8>) -> Self {
        let len = data.len();
        TBuf { id, mem: data, len }
    }

    fn ptr(&self) -> usize {
        self.mem.as_ptr() as usize
    }
}

impl IoBuf for TBuf {
    fn as_init(&self) -> &[u8] {
        &self.mem[..self.len]
    }
}

impl IoBufMut for TBuf {
    fn as_uninit(&mut self) -> &mut [MaybeUninit<u8>] {
        let p = self.mem.as_mut_ptr() as *mut MaybeUninit<u8>;
        unsafe { std::slice::from_raw_parts_mut(p, self.mem.len()) }
    }
}

impl SetLen for TBuf {
    unsafe fn set_len(&mut self, len: usize) {
        self.len = len.min(self.mem.len());
    }
}

impl Drop for TBuf {
    fn drop(&mut self) {
        log(Item::BufDrop { buf: self.id });
        let mut m = std::mem::take(&mut self.mem);
        m.iter_mut().for_each(|b| *b = CANARY);
        QUARANTINE.lock().unwrap_or_else(|e| e.into_inner()).push((self.id, m));
    }
}

pub struct LabFd {
    fd: OwnedFd,
    res: usize,
}

impl AsFd for LabFd {
    fn as_fd(&self) -> BorrowedFd<'_> {
        self.fd.as_fd()
    }
}

impl Drop for LabFd {
    fn drop(&mut self) {
        log(Item::FdClose { res: self.res });
    }
}

type Fd = SharedFd<LabFd>;

struct CountWaker(AtomicUsize);

impl Wake for CountWaker {
    fn wake(self: Arc<Self>) {
        self.0.fetch_add(1, Ordering::SeqCst);
    }

    fn wake_by_ref(self: &Arc<Self>) {
        self.0.fetch_add(1, Ordering::SeqCst);
    }
}

// ------------------------------------------------------------------------------------------------
// case type

#[derive(Debug, Clone, Copy, Serialize, Deserialize, PartialEq, Eq, Hash)]
pub enum Kind {
    Recv,
    ReadPipe,
    Accept,
    AcceptMulti,
    PollOnce,
    Job,
    ReadAt,
    SendZc,
}

impl Kind {
    fn interruptible(self) -> bool {
        matches!(self, Kind::Recv | Kind::ReadPipe | Kind::Accept | Kind::AcceptMulti | Kind::PollOnce)
    }

    fn stream_read(self) -> bool {
        matches!(self, Kind::Recv | Kind::ReadPipe)
    }
}

#[derive(Debug, Clone, Serialize, Deserialize)]
pub enum Step {
    Submit {
        kind: Kind,
        res: u16,
        cap: u16,
        /// receive / accept with the poll-first flag, as compio-net sets it after the socket was seen empty
        #[serde(default)]
        pf: bool,
    },
    Feed { res: u16, n: u16 },
    CloseEnd { res: u16 },
    Connect,
    OpenGate { job: u16 },
    Poll { block: bool },
    Pop { op: u16 },
    PopMulti { op: u16 },
    SetWaker { op: u16 },
    /// `Proactor::cancel(key)`: consumes the key, like a dropped future
    Cancel { op: u16 },
    CancelToken { op: u16 },
    CancelTwice { op: u16 },
    /// drop the lab's own clone of the shared descriptor of stream `res`
    DropHandle { res: u16 },
    DropDriver,
    /// `Proactor::flush()`: hand queued submissions to the kernel without reaping completions
    Flush,
    /// `Proactor::waker().wake()` from the lab thread
    Wake,
    /// A thread-pool job that finishes *while the driver sleeps in `poll`*, and makes a watched descriptor
    /// (stream `res`) readable just before it does: its wake-up and the readiness land in the same round.
    /// Afterwards its completion is deliverable and the driver must not go to sleep on it.
    JobRace { res: u16, n: u16 },
}

#[derive(Debug, Clone, Serialize, Deserialize)]
pub struct Case {
    pub iour: bool,
    pub cap_ix: u8,
    pub pool_ix: u8,
    pub steps: Vec<Step>,
}

const CAPS: [u32; 5] = [1, 2, 3, 8, 1024];
const POOLS: [usize; 3] = [1, 2, 4];

// ------------------------------------------------------------------------------------------------
// type-erased keys

enum Payload {
    Buf(TBuf),
    Accepted(socket2::Socket, socket2::SockAddr),
    AcceptedMulti(socket2::Socket),
    Job(u32),
    None,
}

struct Completed {
    res: io::Result<usize>,
    payload: Payload,
}

trait AnyKey {
    fn pop(self: Box<Self>, p: &mut Proactor) -> Result<Completed, Box<dyn AnyKey>>;
    fn pop_multi(&self, p: &mut Proactor) -> Option<BufResult<usize, Extra>>;
    fn cancel(self: Box<Self>, p: &mut Proactor) -> Option<Completed>;
    fn token(&self, p: &mut Proactor) -> Cancel;
    fn set_waker(&self, p: &mut Proactor, w: &Waker);
}

struct K<T: OpCode, F: Fn(T, bool) -> Payload>(Key<T>, F);

impl<T: OpCode + 'static, F: Fn(T, bool) -> Payload + 'static> AnyKey for K<T, F> {
    fn pop(self: Box<Self>, p: &mut Proactor) -> Result<Completed, Box<dyn AnyKey>> {
        let K(key, f) = *self;
        match p.pop(key) {
            PushEntry::Ready(BufResult(res, op)) => {
                let ok = res.is_ok();
                Ok(Completed { res, payload: f(op, ok) })
            }
            PushEntry::Pending(key) => Err(Box::new(K(key, f))),
        }
    }

    fn pop_multi(&self, p: &mut Proactor) -> Option<BufResult<usize, Extra>> {
        p.pop_multishot(&self.0)
    }

    fn cancel(self: Box<Self>, p: &mut Proactor) -> Option<Completed> {
        let K(key, f) = *self;
        p.cancel(key).map(|BufResult(res, op)| {
            let ok = res.is_ok();
            Completed { res, payload: f(op, ok) }
        })
    }

    fn token(&self, p: &mut Proactor) -> Cancel {
        p.register_cancel(&self.0)
    }

    fn set_waker(&self, p: &mut Proactor, w: &Waker) {
        p.update_waker(&self.0, w)
    }
}

// ------------------------------------------------------------------------------------------------
// lab state

struct Stream {
    handle: Option<Fd>,
    peer: Option<OwnedFd>,
    fed: Vec<u8>,
    delivered: Vec<(usize, usize)>,
    closed: bool,
    eof_seen: bool,
    /// data of the completed reads, parallel to `delivered` (op index, length)
    chunks: Vec<Vec<u8>>,
    /// bytes sent towards the peer by SendZc ops (payloads, in submission order)
    sent: Vec<Vec<u8>>,
}

#[derive(Debug, Clone, Copy, PartialEq)]
enum St {
    Pending,
    Done,
    /// key consumed by `Proactor::cancel`; the outcome is not observable any more
    Dropped,
}

struct OpRec {
    kind: Kind,
    res: usize,
    buf_id: Option<u32>,
    buf_ptr: usize,
    cap: usize,
    hook_id: Option<usize>,
    /// how many storages had been allocated at this address up to and including this op's
    hook_gen: usize,
    paths: Vec<SubmitPath>,
    key: Option<Box<dyn AnyKey>>,
    st: St,
    waker: Option<Arc<CountWaker>>,
    token_cancelled: bool,
    job_gate: Option<Arc<AtomicBool>>,
    /// (descriptor to write to, bytes) the job writes right before it finishes; how many bytes it wrote (-1 = not yet)
    job_feed: Option<Arc<std::sync::Mutex<Option<(i32, Vec<u8>)>>>>,
    job_fed: Option<Arc<std::sync::atomic::AtomicI64>>,
    offset: u64,
    multi_accepts: usize,
    zc_first: Option<io::Result<usize>>,
}

fn pattern(res: usize, p: usize) -> u8 {
    let x = (p as u32).wrapping_mul(2654435761).wrapping_add((res as u32 + 1).wrapping_mul(40503));
    ((x >> 13) ^ (x >> 3)) as u8
}

const FILE_LEN: usize = 300;

fn file_byte(p: usize) -> u8 {
    pattern(7, p)
}

struct Lab {
    mode: Mode,
    iour: bool,
    p: Option<Proactor>,
    streams: Vec<Stream>,
    listener: Option<Fd>,
    listen_addr: std::net::SocketAddr,
    /// clients connected by the lab: (local port, stream, accepted?)
    clients: Vec<(u16, TcpStream, bool)>,
    file: Option<Fd>,
    file_path: std::path::PathBuf,
    ops: Vec<OpRec>,
    next_buf: u32,
    polls: u32,
    labels: HashSet<String>,
    nontrivial: bool,
    lab_thread: ThreadId,
    /// what the peer of stream 1 read (data sent by SendZc ops)
    received: Vec<u8>,
    pool_limit: usize,
    /// most operations a program may submit (raised for the lab's own busy rounds)
    op_limit: usize,
    /// regression cases only: do not drain pool jobs before a driver drop
    keep_pool_jobs: bool,
}

macro_rules! vio {
    ($lab:expr, $cat:expr, $($fmt:tt)+) => {
        return Err(Outcome::violation(format!("{}/{}", $lab.mode.name(), $cat), format!($($fmt)+)))
    };
}

type R<T> = Result<T, Outcome>;

fn set_nonblock(fd: RawFd) {
    unsafe {
        let fl = libc::fcntl(fd, libc::F_GETFL);
        libc::fcntl(fd, libc::F_SETFL, fl | libc::O_NONBLOCK);
    }
}

impl Lab {
    fn new(case: &Case, mode: Mode) -> io::Result<Self> {
        let mut b = ProactorBuilder::new();
        b.driver_type(if case.iour { DriverType::IoUring } else { DriverType::Poll })
            .capacity(CAPS[case.cap_ix as usize % CAPS.len()])
            .thread_pool_limit(POOLS[case.pool_ix as usize % POOLS.len()]);
        let p = b.build()?;
        let mut streams = vec![];
        for res in 0..2 {
            // stream 0: Unix socketpair; stream 1: TCP loopback connection (zero-copy send needs TCP)
            let (a, bb) = if res == 0 {
                socket2::Socket::pair(socket2::Domain::UNIX, socket2::Type::STREAM, None)?
            } else {
                let l = TcpListener::bind("127.0.0.1:0")?;
                let c = TcpStream::connect(l.local_addr()?)?;
                let (srv, _) = l.accept()?;
                c.set_nodelay(true)?;
                srv.set_nodelay(true)?;
                (socket2::Socket::from(srv), socket2::Socket::from(c))
            };
            bb.set_nonblocking(true)?;
            if !case.iour {
                a.set_nonblocking(true)?;
            }
            let a: OwnedFd = a.into();
            streams.push(Stream {
                handle: Some(SharedFd::new(LabFd { fd: a, res })),
                peer: Some(bb.into()),
                fed: vec![],
                delivered: vec![],
                closed: false,
                eof_seen: false,
                chunks: vec![],
                sent: vec![],
            });
        }
        // pipe: op side reads, lab writes
        let mut fds = [0i32; 2];
        if unsafe { libc::pipe2(fds.as_mut_ptr(), libc::O_CLOEXEC) } != 0 {
            return Err(io::Error::last_os_error());
        }
        let (r, w) = unsafe { (OwnedFd::from_raw_fd(fds[0]), OwnedFd::from_raw_fd(fds[1])) };
        set_nonblock(w.as_raw_fd());
        if !case.iour {
            set_nonblock(r.as_raw_fd());
        }
        streams.push(Stream { handle: Some(SharedFd::new(LabFd { fd: r, res: 2 })), peer: Some(w), fed: vec![], delivered: vec![], closed: false, eof_seen: false, chunks: vec![], sent: vec![] });
        let l = TcpListener::bind("127.0.0.1:0")?;
        let listen_addr = l.local_addr()?;
        if !case.iour {
            l.set_nonblocking(true)?;
        }
        let listener = Some(SharedFd::new(LabFd { fd: l.into(), res: 3 }));
        static N: AtomicUsize = AtomicUsize::new(0);
        let file_path = std::env::temp_dir().join(format!("verif-drvlab-{}-{}", std::process::id(), N.fetch_add(1, Ordering::SeqCst)));
        std::fs::write(&file_path, (0..FILE_LEN).map(file_byte).collect::<Vec<u8>>())?;
        let f = std::fs::File::open(&file_path)?;
        let file = Some(SharedFd::new(LabFd { fd: f.into(), res: 4 }));
        Ok(Lab {
            mode,
            iour: case.iour,
            p: Some(p),
            streams,
            listener,
            listen_addr,
            clients: vec![],
            file,
            file_path,
            ops: vec![],
            next_buf: 1,
            polls: 0,
            labels: HashSet::new(),
            nontrivial: false,
            lab_thread: std::thread::current().id(),
            received: vec![],
            pool_limit: POOLS[case.pool_ix as usize % POOLS.len()],
            op_limit: 14,
            keep_pool_jobs: case.cap_ix >= 100,
        })
    }

    fn label(&mut self, s: &str) {
        self.labels.insert(s.to_string());
    }

    fn pending_count(&self) -> usize {
        self.ops.iter().filter(|o| o.st == St::Pending).count()
    }

    /// is some op currently handed to the OS / pool / driver without its final fact?
    fn any_in_flight(&self) -> bool {
        let items = log_since(0);
        let mut inflight: HashSet<usize> = HashSet::new();
        for it in &items {
            if let Item::Hook(e, _) = it {
                match *e {
                    Event::Submit { id, .. } => {
                        inflight.insert(id);
                    }
                    Event::Cqe { user_data, flags, .. } if flags & F_MORE == 0 => {
                        inflight.remove(&(user_data as usize));
                    }
                    Event::PoolDone { id } => {
                        inflight.remove(&id);
                    }
                    Event::OpFree { id } => {
                        inflight.remove(&id);
                    }
                    Event::RingClosed => inflight.clear(),
                    _ => {}
                }
            }
        }
        self.ops.iter().any(|o| o.hook_id.map(|h| inflight.contains(&h)).unwrap_or(false) && o.st != St::Done)
    }

    // ---------------------------------------------------------------- steps

    fn submit(&mut self, kind: Kind, res_raw: u16, cap_raw: u16, pf: bool) -> R<()> {
        if self.p.is_none() || self.ops.len() >= self.op_limit {
            return Ok(());
        }
        // a saturated thread pool makes `push` spin until a worker is free (by design: the job is
        // retried, not dropped), so never submit pool work while every worker is parked on a closed gate
        let gated = self.ops.iter().filter(|o| o.job_gate.as_ref().map(|g| !g.load(Ordering::SeqCst)).unwrap_or(false)).count();
        let needs_pool = kind == Kind::Job || (kind == Kind::ReadAt && !self.iour);
        if needs_pool && gated >= self.pool_limit {
            self.label("pool-saturated-skip");
            return Ok(());
        }
        let op_ix = self.ops.len();
        let pos = log_len();
        let buf_id = self.next_buf;
        let mut rec = OpRec {
            kind,
            res: 0,
            buf_id: None,
            buf_ptr: 0,
            cap: 0,
            hook_id: None,
            hook_gen: 0,
            paths: vec![],
            key: None,
            st: St::Pending,
            waker: None,
            token_cancelled: false,
            job_gate: None,
            job_feed: None,
            job_fed: None,
            offset: 0,
            multi_accepts: 0,
            zc_first: None,
        };
        // a macro because every op type differs
        macro_rules! push {
            ($op:expr, $f:expr) => {{
                let p = self.p.as_mut().unwrap();
                match p.push($op) {
                    PushEntry::Pending(key) => {
                        rec.key = Some(Box::new(K(key, $f)));
                        None
                    }
                    PushEntry::Ready(BufResult(res, op)) => {
                        let ok = res.is_ok();
                        Some(Completed { res, payload: ($f)(op, ok) })
                    }
                }
            }};
        }
        let ready: Option<Completed> = match kind {
            Kind::Recv | Kind::ReadPipe | Kind::PollOnce | Kind::SendZc => {
                let res = match kind {
                    Kind::ReadPipe => 2,
                    Kind::PollOnce => mono_ix(res_raw, 3),
                    Kind::SendZc => 1,
                    _ => mono_ix(res_raw, 2),
                };
                let Some(fd) = self.streams[res].handle.clone() else { return Ok(()) };
                rec.res = res;
                match kind {
                    Kind::Recv => {
                        let cap = mono_range(cap_raw, 1, 48);
                        let b = TBuf::new(buf_id, cap);
                        self.next_buf += 1;
                        rec.buf_id = Some(buf_id);
                        rec.buf_ptr = b.ptr();
                        rec.cap = cap;
                        let mut rop = Recv::new(fd, b, RecvFlags::empty());
                        if pf {
                            compio_driver::PollFirst::poll_first(&mut rop);
                            self.label("poll-first");
                        }
                        push!(rop, |op: Recv<TBuf, Fd>, _ok: bool| Payload::Buf(op.into_inner()))
                    }
                    Kind::ReadPipe => {
                        let cap = mono_range(cap_raw, 1, 48);
                        let b = TBuf::new(buf_id, cap);
                        self.next_buf += 1;
                        rec.buf_id = Some(buf_id);
                        rec.buf_ptr = b.ptr();
                        rec.cap = cap;
                        push!(Read::new(fd, b), |op: Read<TBuf, Fd>, _ok: bool| Payload::Buf(op.into_inner()))
                    }
                    Kind::PollOnce => {
                        // bytes already handed to popped reads when this poll was submitted
                        rec.offset = self.streams[res].delivered.iter().map(|d| d.1 as u64).sum();
                        push!(PollOnce::new(fd, Interest::Readable), |_op: PollOnce<Fd>, _ok: bool| Payload::None)
                    }
                    _ => {
                        let n = mono_range(cap_raw, 1, 48);
                        let data: Vec<u8> = (0..n).map(|j| pattern(20 + op_ix, j)).collect();
                        self.streams[res].sent.push(data.clone());
                        let b = TBuf::with_data(buf_id, data);
                        self.next_buf += 1;
                        rec.buf_id = Some(buf_id);
                        rec.buf_ptr = b.ptr();
                        rec.cap = n;
                        push!(SendZc::new(fd, b, SendFlags::empty()), |op: SendZc<TBuf, Fd>, _ok: bool| Payload::Buf(op.into_inner()))
                    }
                }
            }
            Kind::Accept => {
                let Some(fd) = self.listener.clone() else { return Ok(()) };
                rec.res = 3;
                let mut aop = Accept::new(fd);
                if pf {
                    compio_driver::PollFirst::poll_first(&mut aop);
                    self.label("poll-first");
                }
                push!(aop, |op: Accept<Fd>, ok: bool| {
                    if !ok {
                        return Payload::None;
                    }
                    let (s, a) = op.into_inner();
                    Payload::Accepted(s, a)
                })
            }
            Kind::AcceptMulti => {
                let Some(fd) = self.listener.clone() else { return Ok(()) };
                rec.res = 3;
                push!(AcceptMulti::new(fd), |op: AcceptMulti<Fd>, ok: bool| if ok { Payload::AcceptedMulti(op.into_inner()) } else { Payload::None })
            }
            Kind::Job => {
                let gate = Arc::new(AtomicBool::new(false));
                rec.job_gate = Some(gate.clone());
                rec.res = 5;
                let v = 1000 + op_ix as u32;
                let feed: Arc<std::sync::Mutex<Option<(i32, Vec<u8>)>>> = Arc::new(std::sync::Mutex::new(None));
                let fed = Arc::new(std::sync::atomic::AtomicI64::new(-1));
                rec.job_feed = Some(feed.clone());
                rec.job_fed = Some(fed.clone());
                let f: Box<dyn FnOnce() -> BufResult<usize, u32> + Send> = Box::new(move || {
                    let t0 = Instant::now();
                    while !gate.load(Ordering::SeqCst) && t0.elapsed() < Duration::from_secs(60) {
                        std::thread::sleep(Duration::from_micros(200));
                    }
                    // `JobRace`: make the watched descriptor readable as the very last thing
                    if let Some((fd, data)) = feed.lock().unwrap_or_else(|p| p.into_inner()).take() {
                        let w = unsafe { libc::write(fd, data.as_ptr() as *const _, data.len()) };
                        unsafe { libc::close(fd) };
                        fed.store(w.max(0) as i64, Ordering::SeqCst);
                    }
                    BufResult(Ok(v as usize), v)
                });
                push!(Asyncify::new(f), |op: Asyncify<Box<dyn FnOnce() -> BufResult<usize, u32> + Send>, u32>, _ok: bool| Payload::Job(op.into_inner()))
            }
            Kind::ReadAt => {
                let Some(fd) = self.file.clone() else { return Ok(()) };
                rec.res = 4;
                let cap = mono_range(cap_raw, 1, 48);
                rec.offset = (res_raw as u64 * (FILE_LEN as u64 + 20)) >> 16;
                let b = TBuf::new(buf_id, cap);
                self.next_buf += 1;
                rec.buf_id = Some(buf_id);
                rec.buf_ptr = b.ptr();
                rec.cap = cap;
                push!(ReadAt::new(fd, rec.offset, b), |op: ReadAt<TBuf, Fd>, _ok: bool| Payload::Buf(op.into_inner()))
            }
        };
        // which storage did this push allocate, and how was it handed over?
        for it in log_since(pos) {
            if let Item::Hook(e, _) = it {
                match e {
                    Event::OpAlloc { id } if rec.hook_id.is_none() => rec.hook_id = Some(id),
                    Event::Submit { id, path } if Some(id) == rec.hook_id => rec.paths.push(path),
                    _ => {}
                }
            }
        }
        if let Some(h) = rec.hook_id {
            rec.hook_gen = log_since(0).iter().filter(|it| matches!(it, Item::Hook(Event::OpAlloc { id }, _) if *id == h)).count();
        }
        self.label(&format!("kind:{kind:?}"));
        if rec.key.is_some() {
            log(Item::Hold { op: op_ix });
        }
        self.ops.push(rec);
        if self.pending_count() >= 2 {
            self.label("two-pending");
        }
        if let Some(c) = ready {
            self.label("ready-at-push");
            self.complete(op_ix, c)?;
        }
        Ok(())
    }

    fn feed(&mut self, res_raw: u16, n_raw: u16) {
        let res = mono_ix(res_raw, 3);
        let s = &mut self.streams[res];
        let Some(peer) = &s.peer else { return };
        if s.fed.len() > 3000 {
            return;
        }
        let n = mono_range(n_raw, 1, 64);
        let start = s.fed.len();
        let data: Vec<u8> = (0..n).map(|j| pattern(res, start + j)).collect();
        let w = unsafe { libc::write(peer.as_raw_fd(), data.as_ptr() as *const _, data.len()) };
        if w > 0 {
            s.fed.extend_from_slice(&data[..w as usize]);
        }
    }

    fn close_end(&mut self, res_raw: u16) {
        let res = mono_ix(res_raw, 3);
        if res == 1 {
            self.drain_peer(1);
        }
        let s = &mut self.streams[res];
        if s.peer.take().is_some() {
            s.closed = true;
        }
    }

    fn connect(&mut self) -> R<()> {
        if self.clients.len() >= 40 {
            return Ok(());
        }
        // Only while the listening descriptor is certainly still ours (handle alive, or an accept the lab still
        // holds keeps it open): once it is closed the port can be handed to a listener of another process
        // (parallel shards), and a connection made here would show up there as a peer "nobody made".
        if self.listener.is_none() && !self.ops.iter().any(|o| matches!(o.kind, Kind::Accept | Kind::AcceptMulti) && o.st == St::Pending) {
            return Ok(());
        }
        match TcpStream::connect(self.listen_addr) {
            Ok(c) => {
                let port = c.local_addr().map(|a| a.port()).unwrap_or(0);
                self.clients.push((port, c, false));
            }
            Err(_) => {} // listener already closed (handle dropped, no accept pending): nothing to learn
        }
        Ok(())
    }

    fn open_gate(&mut self, job_raw: u16) {
        let jobs: Vec<usize> = self.ops.iter().enumerate().filter(|(_, o)| o.kind == Kind::Job).map(|(i, _)| i).collect();
        if jobs.is_empty() {
            return;
        }
        let i = jobs[mono_ix(job_raw, jobs.len())];
        if let Some(g) = &self.ops[i].job_gate {
            g.store(true, Ordering::SeqCst);
        }
    }

    fn poll(&mut self, timeout: Duration) -> R<()> {
        let Some(p) = self.p.as_mut() else { return Ok(()) };
        self.polls += 1;
        match p.poll(Some(timeout)) {
            Ok(()) => Ok(()),
            Err(e) if matches!(e.kind(), io::ErrorKind::TimedOut | io::ErrorKind::Interrupted) => Ok(()),
            Err(e) => vio!(self, format!("poll-error/{}", if self.iour { "iour" } else { "poll" }), "Proactor::poll failed: {e}"),
        }
    }

    fn pick_op(&self, raw: u16) -> Option<usize> {
        if self.ops.is_empty() {
            None
        } else {
            Some(mono_ix(raw, self.ops.len()))
        }
    }

    fn pop(&mut self, i: usize) -> R<bool> {
        if self.p.is_none() || self.ops[i].st != St::Pending {
            return Ok(false);
        }
        let Some(key) = self.ops[i].key.take() else { return Ok(false) };
        // drain multishot items first so that the final pop sees the op alone
        if matches!(self.ops[i].kind, Kind::AcceptMulti | Kind::SendZc) {
            self.pop_multi_inner(i, &*key)?;
        }
        let p = self.p.as_mut().unwrap();
        // popping a ready key hands the storage back (take_result frees it): from here on the lab
        // no longer counts as a holder; if the key comes back pending the hold resumes
        log(Item::Release { op: i });
        match key.pop(p) {
            Ok(c) => {
                self.complete(i, c)?;
                Ok(true)
            }
            Err(k) => {
                log(Item::Hold { op: i });
                self.ops[i].key = Some(k);
                Ok(false)
            }
        }
    }

    fn pop_multi_inner(&mut self, i: usize, key: &dyn AnyKey) -> R<()> {
        loop {
            let p = self.p.as_mut().unwrap();
            let Some(BufResult(res, _extra)) = key.pop_multi(p) else { break };
            if self.ops[i].kind == Kind::SendZc {
                if self.ops[i].zc_first.is_some() {
                    vio!(self, "zerocopy-result-twice", "zero-copy send op #{i} produced its send result twice");
                }
                self.ops[i].zc_first = Some(res);
                self.label("zerocopy-first-result");
                continue;
            }
            match res {
                Ok(fd) => {
                    let s = unsafe { socket2::Socket::from_raw_fd(fd as RawFd) };
                    self.accepted(i, s)?;
                    self.ops[i].multi_accepts += 1;
                    self.label("multishot-item");
                }
                Err(e) => {
                    if !(self.ops[i].token_cancelled && e.raw_os_error() == Some(libc::ECANCELED)) {
                        vio!(self, "unexpected-error/AcceptMulti-item", "multishot accept item failed: {e}");
                    }
                }
            }
        }
        Ok(())
    }

    fn pop_multi(&mut self, i: usize) -> R<()> {
        if self.p.is_none() || self.ops[i].st != St::Pending || !matches!(self.ops[i].kind, Kind::AcceptMulti | Kind::SendZc) {
            return Ok(());
        }
        let Some(key) = self.ops[i].key.take() else { return Ok(()) };
        let r = self.pop_multi_inner(i, &*key);
        self.ops[i].key = Some(key);
        r
    }

    fn accepted(&mut self, i: usize, s: socket2::Socket) -> R<()> {
        let peer = s.peer_addr().ok().and_then(|a| a.as_socket()).map(|a| a.port()).unwrap_or(0);
        match self.clients.iter_mut().find(|c| c.0 == peer) {
            Some(c) if !c.2 => {
                c.2 = true;
                Ok(())
            }
            Some(_) => vio!(self, "accept-duplicate", "op #{i} accepted the connection from port {peer} a second time"),
            None => vio!(self, "accept-unknown-peer", "op #{i} accepted a connection from port {peer} that the lab never made"),
        }
    }

    /// Judge a final outcome (C02/C05 result oracle) and mark the op done.
    fn complete(&mut self, i: usize, c: Completed) -> R<()> {
        let kind = self.ops[i].kind;
        let res_ix = self.ops[i].res;
        let cancelled = self.ops[i].token_cancelled;
        self.ops[i].st = St::Done;
        self.label("completed");
        if self.ops.iter().filter(|o| o.st == St::Pending).count() >= 1 {
            // at least one other op was pending while this one completed
            self.label("completed-while-other-pending");
            if self.mode == Mode::C02 {
                self.nontrivial = true;
            }
        }
        let drv = if self.iour { "iour" } else { "poll" };
        // the waker registered before completion must have fired
        if let Some(w) = &self.ops[i].waker {
            if w.0.load(Ordering::SeqCst) == 0 && self.mode == Mode::C02 {
                vio!(self, format!("not-woken/{kind:?}/{drv}"), "op #{i} completed but the waker registered with update_waker was never invoked");
            }
            self.label("waker-checked");
        }
        let is_cancel_err = |e: &io::Error| e.raw_os_error() == Some(libc::ECANCELED);
        match (kind, c.payload) {
            (Kind::Recv | Kind::ReadPipe | Kind::ReadAt | Kind::SendZc, Payload::Buf(b)) => {
                log(Item::BufReturned { buf: b.id });
                if Some(b.id) != self.ops[i].buf_id {
                    vio!(self, format!("foreign-buffer/{kind:?}/{drv}"), "op #{i} got buffer {} back, submitted {:?}", b.id, self.ops[i].buf_id);
                }
                if b.ptr() != self.ops[i].buf_ptr {
                    vio!(self, format!("buffer-moved/{kind:?}/{drv}"), "op #{i}: buffer address changed while in flight");
                }
                match c.res {
                    Ok(n) => {
                        if n > self.ops[i].cap {
                            vio!(self, format!("count-exceeds-capacity/{kind:?}/{drv}"), "op #{i}: {n} > capacity {}", self.ops[i].cap);
                        }
                        let data = b.mem[..n].to_vec();
                        match kind {
                            Kind::ReadAt => {
                                let off = self.ops[i].offset as usize;
                                let want: Vec<u8> = (off..FILE_LEN.max(off)).take(self.ops[i].cap).map(file_byte).collect();
                                if data != want {
                                    vio!(self, format!("file-data-mismatch/{drv}"), "op #{i}: ReadAt(off {off}, cap {}) returned {n} bytes, expected {}", self.ops[i].cap, want.len());
                                }
                            }
                            Kind::SendZc => {
                                // io_uring: the send result is the F_MORE completion (taken through
                                // pop_multishot), the final completion is the kernel's release notification
                                let sent = match self.ops[i].zc_first.take() {
                                    Some(Ok(k)) => k,
                                    Some(Err(e)) => {
                                        let closed = self.streams[res_ix].closed;
                                        if closed && matches!(e.raw_os_error(), Some(libc::EPIPE) | Some(libc::ECONNRESET)) {
                                            self.ops[i].cap = 0; // nothing was sent: not part of the expected peer data
                                            self.label("send-to-closed-peer");
                                            0
                                        } else {
                                            vio!(self, format!("unexpected-error/SendZc/{drv}"), "op #{i}: zero-copy send failed with {e}")
                                        }
                                    }
                                    None => n,
                                };
                                if sent != self.ops[i].cap {
                                    vio!(self, format!("short-send/{drv}"), "op #{i}: SendZc of {} bytes reported {sent}", self.ops[i].cap);
                                }
                            }
                            _ => {
                                let s = &mut self.streams[res_ix];
                                if n == 0 {
                                    // end of stream: only legal once the peer end is closed; that every fed byte
                                    // was delivered before it is judged when all results are in (check_streams),
                                    // because another reader's data may simply not have been popped yet
                                    if !s.closed {
                                        vio!(self, format!("fabricated-eof/{kind:?}/{drv}"), "op #{i} returned Ok(0) but the peer end of stream {res_ix} is still open");
                                    }
                                    s.eof_seen = true;
                                } else {
                                    // which segment of the stream this is cannot be decided yet (short chunks are
                                    // ambiguous, other readers' results may not be popped): remember it, and only
                                    // require now that the bytes occur in what was fed at all
                                    let occurs = s.fed.len() >= n && s.fed.windows(n).any(|w| w == &data[..]);
                                    if !occurs {
                                        vio!(
                                            self,
                                            format!("data-not-from-stream/{kind:?}/{drv}"),
                                            "op #{i} returned {n} bytes that do not occur in what was fed to stream {res_ix} ({} bytes fed)",
                                            s.fed.len()
                                        );
                                    }
                                    s.delivered.push((i, n));
                                    s.chunks.push(data.clone());
                                }
                            }
                        }
                    }
                    Err(e) => {
                        let send_closed = kind == Kind::SendZc && self.streams[res_ix].closed && matches!(e.raw_os_error(), Some(libc::EPIPE) | Some(libc::ECONNRESET));
                        if send_closed {
                            self.ops[i].cap = 0;
                            self.label("send-to-closed-peer");
                        } else if !(cancelled && is_cancel_err(&e)) {
                            vio!(self, format!("unexpected-error/{kind:?}/{drv}"), "op #{i} (cancel requested: {cancelled}) failed with {e}");
                        } else {
                            self.label("cancelled-outcome");
                        }
                    }
                }
                drop(b);
            }
            (Kind::Accept, Payload::Accepted(s, _a)) => self.accepted(i, s)?,
            (Kind::AcceptMulti, Payload::AcceptedMulti(s)) => self.accepted(i, s)?,
            (Kind::Accept | Kind::AcceptMulti, Payload::None) => match c.res {
                Ok(n) => vio!(self, format!("payload-kind-mismatch/{drv}"), "op #{i}: accept reported Ok({n}) without a socket"),
                Err(e) => {
                    if !(cancelled && is_cancel_err(&e)) {
                        vio!(self, format!("unexpected-error/{kind:?}/{drv}"), "op #{i} failed with {e}");
                    }
                    self.label("cancelled-outcome");
                }
            },
            (Kind::PollOnce, Payload::None) => match c.res {
                Ok(_) => {
                    // readiness is legitimate if the stream was readable at some moment between submit
                    // and now: closed, or some fed byte had not yet been handed to a popped read when the
                    // poll was submitted (other reads may have consumed it since)
                    let s = &self.streams[res_ix];
                    let delivered_at_submit = self.ops[i].offset as usize;
                    if !(s.closed || s.fed.len() > delivered_at_submit) {
                        vio!(self, format!("fabricated-readiness/{drv}"), "op #{i}: PollOnce(readable) on stream {res_ix} completed although nothing is readable");
                    }
                }
                Err(e) => {
                    if !(cancelled && is_cancel_err(&e)) {
                        vio!(self, format!("unexpected-error/PollOnce/{drv}"), "op #{i} failed with {e}");
                    }
                    self.label("cancelled-outcome");
                }
            },
            (Kind::Job, Payload::Job(v)) => {
                let want = 1000 + i as u32;
                let open = self.ops[i].job_gate.as_ref().map(|g| g.load(Ordering::SeqCst)).unwrap_or(true);
                match c.res {
                    Ok(n) if n == want as usize && v == want && open => {}
                    other => vio!(self, format!("job-result/{drv}"), "job op #{i}: result {other:?} data {v}, expected {want}, gate open: {open}"),
                }
            }
            _ => vio!(self, format!("payload-kind-mismatch/{drv}"), "op #{i}: payload of another operation kind"),
        }
        Ok(())
    }

    fn cancel_drop(&mut self, i: usize) -> R<()> {
        if self.p.is_none() || self.ops[i].st != St::Pending {
            return Ok(());
        }
        let Some(key) = self.ops[i].key.take() else { return Ok(()) };
        let others = self.ops.iter().enumerate().filter(|(j, o)| *j != i && o.st == St::Pending).count();
        let inflight = self.any_in_flight();
        if matches!(self.ops[i].kind, Kind::AcceptMulti | Kind::SendZc) {
            // items already produced belong to the lab: take them before letting go
            self.pop_multi_inner(i, &*key)?;
        }
        let p = self.p.as_mut().unwrap();
        log(Item::Release { op: i });
        match key.cancel(p) {
            Some(c) => {
                self.label("cancel-after-complete");
                self.complete(i, c)?;
            }
            None => {
                self.ops[i].st = St::Dropped;
                self.label("cancel-drop-pending");
                if self.mode == Mode::C05 && others >= 1 && self.ops[i].kind.interruptible() {
                    self.nontrivial = true;
                }
                if self.mode == Mode::C01 && inflight {
                    self.label("drop-while-in-flight");
                }
            }
        }
        Ok(())
    }

    fn cancel_token(&mut self, i: usize, twice: bool) -> R<()> {
        if self.p.is_none() || self.ops[i].st != St::Pending || self.ops[i].key.is_none() {
            return Ok(());
        }
        if !self.ops[i].kind.interruptible() {
            return Ok(()); // thread-pool and file operations are documented as not interruptible
        }
        let drv = if self.iour { "iour" } else { "poll" };
        let others = self.ops.iter().enumerate().filter(|(j, o)| *j != i && o.st == St::Pending).count();
        let already = self.ops[i].token_cancelled;
        let p = self.p.as_mut().unwrap();
        let key = self.ops[i].key.as_ref().unwrap();
        let t = key.token(p);
        let first = p.cancel_token(t.clone());
        if already && first {
            vio!(self, format!("second-cancel-accepted/{drv}"), "cancel_token returned true for op #{i} which was already cancelled");
        }
        if first {
            self.ops[i].token_cancelled = true;
            self.label("token-cancel-pending");
            if self.mode == Mode::C05 && others >= 1 {
                self.nontrivial = true;
            }
        } else if !already {
            // refused and never cancelled before: the op must already have its result
            self.label("token-cancel-after-complete");
            if !self.pop(i)? {
                vio!(self, format!("token-refused-but-pending/{drv}"), "cancel_token returned false for op #{i}, yet it has no result");
            }
            return Ok(());
        }
        if twice {
            let p = self.p.as_mut().unwrap();
            if p.cancel_token(t) {
                vio!(self, format!("second-cancel-accepted/{drv}"), "second cancel_token for op #{i} returned true");
            }
            self.label("cancel-twice");
        }
        Ok(())
    }

    /// What a future's poll does: look for the result first, register the waker only if there is none.
    fn set_waker(&mut self, i: usize) -> R<()> {
        if self.p.is_none() || self.ops[i].st != St::Pending {
            return Ok(());
        }
        if self.ops[i].waker.is_some() {
            // polled again from another task context: the newest waker is the one that must be woken
            self.label("waker-replaced");
        }
        if self.pop(i)? {
            return Ok(());
        }
        let Some(key) = self.ops[i].key.as_ref() else { return Ok(()) };
        let cw = Arc::new(CountWaker(AtomicUsize::new(0)));
        let w = Waker::from(cw.clone());
        key.set_waker(self.p.as_mut().unwrap(), &w);
        self.ops[i].waker = Some(cw);
        Ok(())
    }

    fn drop_handle(&mut self, res_raw: u16) {
        let res = mono_ix(res_raw, 5);
        let inflight = self.any_in_flight();
        let dropped = match res {
            0..=2 => self.streams[res].handle.take().is_some(),
            3 => self.listener.take().is_some(),
            _ => self.file.take().is_some(),
        };
        if dropped && inflight && self.mode == Mode::C01 {
            self.label("handle-drop-while-in-flight");
        }
    }

    fn drop_driver(&mut self, keep_pool_jobs: bool) {
        if self.p.is_none() {
            return;
        }
        // Known finding C01/leaked-op/pool-job-outlived-driver: a thread-pool job that finishes after the
        // driver is gone can only leak its operation. Generated programs therefore let pool jobs finish
        // first (counted); the regression case keeps probing the shape.
        if !keep_pool_jobs && pool_jobs_open() > 0 {
            for o in self.ops.iter() {
                if let Some(g) = &o.job_gate {
                    g.store(true, Ordering::SeqCst);
                }
            }
            wait_pool_done(self);
            self.label("excluded-known:pool-job-drained-before-driver-drop");
        }
        if self.any_in_flight() {
            self.label("driver-drop-while-in-flight");
        }
        self.p = None;
        log(Item::DriverDropped);
    }

    // ---------------------------------------------------------------- quiesce

    /// Before any awaited event is supplied: cancelled operations must finish on their own (C05).
    fn job_race(&mut self, res_raw: u16, n_raw: u16) -> R<()> {
        if self.p.is_none() || self.ops.len() + 2 > 14 {
            return Ok(());
        }
        let drv = if self.iour { "iour" } else { "poll" };
        let s = mono_ix(res_raw, 3);
        if self.streams[s].handle.is_none() || self.streams[s].peer.is_none() || self.streams[s].fed.len() > 3000 {
            return Ok(());
        }
        // a reader on the stream, so that the driver watches the descriptor
        let watched = |ops: &Vec<OpRec>| ops.iter().any(|o| o.kind.stream_read() && o.res == s && o.st == St::Pending && !o.token_cancelled);
        if !watched(&self.ops) {
            let (kind, raw) = match s {
                0 => (Kind::Recv, 0u16),
                1 => (Kind::Recv, 40000u16),
                _ => (Kind::ReadPipe, 0u16),
            };
            self.submit(kind, raw, n_raw, false)?;
        }
        let j = self.ops.len();
        self.submit(Kind::Job, 0, 0, false)?;
        if self.ops.len() != j + 1 || self.ops[j].st != St::Pending {
            return Ok(());
        }
        let n = mono_range(n_raw, 1, 16);
        let start = self.streams[s].fed.len();
        let data: Vec<u8> = (0..n).map(|k| pattern(s, start + k)).collect();
        let fd = unsafe { libc::dup(self.streams[s].peer.as_ref().unwrap().as_raw_fd()) };
        if fd < 0 {
            return Ok(());
        }
        *self.ops[j].job_feed.as_ref().unwrap().lock().unwrap_or_else(|p| p.into_inner()) = Some((fd, data.clone()));
        let was_watched = watched(&self.ops);
        self.ops[j].job_gate.as_ref().unwrap().store(true, Ordering::SeqCst);
        // sleep in the driver while the job finishes
        self.poll(Duration::from_millis(250))?;
        let fed = self.ops[j].job_fed.clone().unwrap();
        let hook = self.ops[j].hook_id;
        let t0 = Instant::now();
        loop {
            let sent = log_since(0).iter().any(|it| matches!(it, Item::Hook(Event::PoolSent { id, delivered: true }, _) if Some(*id) == hook));
            if fed.load(Ordering::SeqCst) >= 0 && sent {
                break;
            }
            if t0.elapsed() > Duration::from_secs(20) {
                return Err(Outcome::inconclusive("JobRace: the thread-pool job did not finish within 20 s"));
            }
            std::thread::sleep(Duration::from_micros(200));
        }
        let w = fed.load(Ordering::SeqCst) as usize;
        self.streams[s].fed.extend_from_slice(&data[..w.min(data.len())]);
        self.label(if was_watched { "job-finished-during-poll-with-readiness" } else { "job-finished-during-poll" });
        if self.mode == Mode::C02 && was_watched {
            self.nontrivial = true;
        }
        // The job's completion entry is with the driver now (PoolSent { delivered: true }) and its waker was woken:
        // no poll may sleep on it. A poll that does return quickly (other descriptors are ready) may leave it for
        // the next one, a bounded number of times.
        for _ in 0..40 {
            if self.pop(j)? {
                return Ok(());
            }
            let t0 = Instant::now();
            self.poll(Duration::from_secs(3))?;
            if t0.elapsed() > Duration::from_secs(2) && self.ops[j].st == St::Pending {
                let delivered = self.pop(j)?;
                vio!(
                    self,
                    format!("slept-on-deliverable-completion/Job/{drv}"),
                    "the thread-pool job of op #{j} had handed its completion entry to the driver and woken it, yet Proactor::poll(3 s) slept {:?} before returning (result delivered afterwards: {delivered})",
                    t0.elapsed()
                );
            }
        }
        if !self.pop(j)? {
            vio!(self, format!("left-waiting/Job/{drv}"), "the finished thread-pool job of op #{j} was not delivered by 40 polls");
        }
        Ok(())
    }

    fn settle_cancels(&mut self) -> R<()> {
        if self.p.is_none() {
            return Ok(());
        }
        let drv = if self.iour { "iour" } else { "poll" };
        let token: Vec<usize> = self.ops.iter().enumerate().filter(|(_, o)| o.st == St::Pending && o.token_cancelled).map(|(i, _)| i).collect();
        let dropped: Vec<(usize, usize)> =
            self.ops.iter().enumerate().filter(|(_, o)| o.st == St::Dropped && o.kind.interruptible()).filter_map(|(i, o)| o.hook_id.map(|h| (i, h))).collect();
        if token.is_empty() && dropped.is_empty() {
            return Ok(());
        }
        let freed = |h: usize| log_since(0).iter().any(|it| matches!(it, Item::Hook(Event::OpFree { id }, _) if *id == h));
        // Busy phase: a neighbour descriptor is made ready in every single round (one more byte on a stream none
        // of the cancelled operations uses, and a fresh readiness poll on it). "Promptly" cannot depend on the
        // driver having an idle round: the cancelled operations have to finish all the same, within 8 polls.
        let busy_stream = (0..3usize).find(|&r| {
            self.streams[r].handle.is_some()
                && self.streams[r].peer.is_some()
                && self.streams[r].fed.len() < 2900
                && !self.ops.iter().any(|o| o.res == r && o.st != St::Done && (o.token_cancelled || o.st == St::Dropped))
        });
        if let (Mode::C05, Some(x)) = (self.mode, busy_stream) {
            let raw = [0u16, 30000, 65535][x];
            self.label("busy-settle");
            self.op_limit = self.ops.len() + 8;
            let mut open = true;
            for _ in 0..8 {
                open = false;
                for &i in &token {
                    if self.ops[i].st == St::Pending && !self.pop(i)? {
                        open = true;
                    }
                }
                for &(_, h) in &dropped {
                    if !freed(h) {
                        open = true;
                    }
                }
                if !open {
                    break;
                }
                self.feed(raw, 0);
                self.submit(Kind::PollOnce, raw, 0, false)?;
                self.poll(Duration::ZERO)?;
            }
            self.op_limit = 14.max(self.ops.len());
            if open {
                for &i in &token {
                    if self.ops[i].st == St::Pending && !self.pop(i)? {
                        vio!(
                            self,
                            format!("cancel-starved-by-busy-neighbour/token/{:?}/{drv}", self.ops[i].kind),
                            "op #{i} ({:?}) was cancelled through its token but is still pending after 8 polls in each of which another descriptor was ready",
                            self.ops[i].kind
                        );
                    }
                }
                for &(i, h) in &dropped {
                    if !freed(h) {
                        vio!(
                            self,
                            format!("cancel-starved-by-busy-neighbour/drop/{:?}/{drv}", self.ops[i].kind),
                            "op #{i} ({:?}) was cancelled by dropping its key but the driver still holds it after 8 polls in each of which another descriptor was ready",
                            self.ops[i].kind
                        );
                    }
                }
            }
        }
        for round in 0..12 {
            let mut open = false;
            for &i in &token {
                if self.ops[i].st == St::Pending && !self.pop(i)? {
                    open = true;
                }
            }
            for &(_, h) in &dropped {
                if !freed(h) {
                    open = true;
                }
            }
            if !open {
                return Ok(());
            }
            self.poll(Duration::from_millis(if round < 2 { 0 } else { 100 }))?;
        }
        if self.mode != Mode::C05 {
            return Ok(());
        }
        for &i in &token {
            if self.ops[i].st == St::Pending {
                vio!(
                    self,
                    format!("cancel-not-prompt/token/{:?}/{drv}", self.ops[i].kind),
                    "op #{i} ({:?}) was cancelled through its token (cancel_token returned true) but is still pending after 12 polls although nothing else was asked of it",
                    self.ops[i].kind
                );
            }
        }
        for &(i, h) in &dropped {
            if !freed(h) {
                vio!(
                    self,
                    format!("cancel-not-prompt/drop/{:?}/{drv}", self.ops[i].kind),
                    "op #{i} ({:?}) was cancelled by dropping its key but the driver still holds it after 12 polls",
                    self.ops[i].kind
                );
            }
        }
        Ok(())
    }

    /// Supply every awaited event.
    fn supply_all(&mut self) -> R<()> {
        for i in 0..self.ops.len() {
            if let Some(g) = &self.ops[i].job_gate {
                g.store(true, Ordering::SeqCst);
            }
        }
        // let queued submissions reach the kernel, then read what the send ops produced before any
        // peer end is closed (closing a TCP end with unread data resets the connection)
        if self.p.is_some() {
            self.poll(Duration::ZERO)?;
        }
        self.drain_peer(1);
        for res in 0..3 {
            let need: usize = self.ops.iter().filter(|o| o.res == res && o.kind.stream_read() && o.st != St::Done).map(|o| o.cap).sum();
            if need > 0 && self.streams[res].peer.is_some() {
                let s = &mut self.streams[res];
                let start = s.fed.len();
                let data: Vec<u8> = (0..need.min(600)).map(|j| pattern(res, start + j)).collect();
                let w = unsafe { libc::write(s.peer.as_ref().unwrap().as_raw_fd(), data.as_ptr() as *const _, data.len()) };
                if w > 0 {
                    s.fed.extend_from_slice(&data[..w as usize]);
                }
            }
            // closing the peer end makes every remaining reader / poller ready (EOF)
            if self.streams[res].peer.take().is_some() {
                self.streams[res].closed = true;
            }
        }
        let accepts = self.ops.iter().filter(|o| matches!(o.kind, Kind::Accept | Kind::AcceptMulti) && o.st != St::Done).count();
        let unaccepted = self.clients.iter().filter(|c| !c.2).count();
        for _ in unaccepted..accepts {
            self.connect()?;
        }
        Ok(())
    }

    fn drain_peer(&mut self, res: usize) {
        let Some(peer) = &self.streams[res].peer else { return };
        let mut buf = [0u8; 4096];
        loop {
            let n = unsafe { libc::read(peer.as_raw_fd(), buf.as_mut_ptr() as *mut _, buf.len()) };
            if n <= 0 {
                break;
            }
            self.received.extend_from_slice(&buf[..n as usize]);
        }
    }

    fn quiesce(&mut self) -> R<()> {
        if self.p.is_none() {
            return Ok(());
        }
        let drv = if self.iour { "iour" } else { "poll" };
        // a multishot accept never finishes by itself: cancel it through its token, after taking
        // what it has produced (the lab connects one client per accept first)
        for round in 0..300 {
            let mut pending = vec![];
            for i in 0..self.ops.len() {
                if self.ops[i].st == St::Pending {
                    if self.ops[i].kind == Kind::AcceptMulti && round == 3 && !self.ops[i].token_cancelled {
                        self.pop_multi(i)?;
                        let p = self.p.as_mut().unwrap();
                        let t = self.ops[i].key.as_ref().unwrap().token(p);
                        if p.cancel_token(t) {
                            self.ops[i].token_cancelled = true;
                        }
                    }
                    if !self.pop(i)? {
                        pending.push(i);
                    }
                }
            }
            if pending.is_empty() {
                return Ok(());
            }
            // a multishot accept may legitimately take every connection: keep one unaccepted client
            // per pending single accept (bounded)
            // (connections taken by an accept whose key was dropped are invisible to the lab, so simply
            // keep supplying one per pending accept every other round)
            let want = pending.iter().filter(|&&i| self.ops[i].kind == Kind::Accept).count();
            if want > 0 && round % 2 == 1 && round < 12 {
                for _ in 0..want {
                    self.connect()?;
                }
            }
            let only_jobs = pending.iter().all(|&i| self.ops[i].kind == Kind::Job);
            if round >= 30 && !only_jobs {
                break;
            }
            self.poll(Duration::from_millis(if round < 2 { 0 } else { 100 }))?;
        }
        for i in 0..self.ops.len() {
            if self.ops[i].st == St::Pending {
                if self.mode == Mode::C02 || self.mode == Mode::C05 {
                    vio!(
                        self,
                        format!("left-waiting/{:?}/{drv}", self.ops[i].kind),
                        "op #{i} ({:?} on resource {}) is still pending although everything it waits for was supplied (cancelled: {})",
                        self.ops[i].kind,
                        self.ops[i].res,
                        self.ops[i].token_cancelled
                    );
                } else {
                    return Err(Outcome::inconclusive("op left waiting (judged by the C02 check)"));
                }
            }
        }
        Ok(())
    }

    /// The driver must still be wakeable from another thread while it blocks (C02: "the waiting task is
    /// woken"): a wake issued while `poll` sleeps has to end that sleep.  Two consecutive misses count.
    fn wake_probe(&mut self) -> R<()> {
        if self.mode != Mode::C02 || self.p.is_none() {
            return Ok(());
        }
        let drv = if self.iour { "iour" } else { "poll" };
        for attempt in 0..2 {
            let w = self.p.as_ref().unwrap().waker();
            let t = std::thread::spawn(move || {
                std::thread::sleep(Duration::from_millis(15));
                w.wake();
            });
            let t0 = Instant::now();
            let p = self.p.as_mut().unwrap();
            let _ = p.poll(Some(Duration::from_secs(6)));
            let took = t0.elapsed();
            let _ = t.join();
            if took < Duration::from_secs(3) {
                self.label("wake-probe-ok");
                return Ok(());
            }
            // consume the notification that the missed wake left behind, so the second attempt really blocks
            let _ = self.p.as_mut().unwrap().poll(Some(Duration::ZERO));
            if attempt == 1 {
                vio!(self, format!("driver-not-wakeable/{drv}"), "a wake-up from another thread did not end a blocking poll (slept {took:?} of a 6 s timeout, twice): the driver can no longer be woken");
            }
        }
        Ok(())
    }

    /// Stream-level exactly-once: what the reads of one stream got is a partition of a prefix.
    fn check_streams(&mut self) -> R<()> {
        if self.mode == Mode::C01 {
            return Ok(());
        }
        let drv = if self.iour { "iour" } else { "poll" };
        for res in 0..3 {
            let s = &self.streams[res];
            let readers: Vec<&OpRec> = self.ops.iter().filter(|o| o.res == res && o.kind.stream_read()).collect();
            let undisturbed = readers.iter().all(|o| o.st == St::Done && !o.token_cancelled);
            let chunks: Vec<&[u8]> = s.chunks.iter().map(|c| &c[..]).collect();
            let total: usize = chunks.iter().map(|c| c.len()).sum();
            if undisturbed {
                // every reader's result is in: the chunks, in some order, are exactly a prefix of the stream
                fn order(fed: &[u8], at: usize, chunks: &[&[u8]], used: &mut Vec<bool>) -> bool {
                    if used.iter().all(|u| *u) {
                        return true;
                    }
                    for k in 0..chunks.len() {
                        if !used[k] && fed.len() >= at + chunks[k].len() && &fed[at..at + chunks[k].len()] == chunks[k] {
                            used[k] = true;
                            if order(fed, at + chunks[k].len(), chunks, used) {
                                return true;
                            }
                            used[k] = false;
                        }
                    }
                    false
                }
                let mut used = vec![false; chunks.len()];
                if !order(&s.fed, 0, &chunks, &mut used) {
                    vio!(
                        self,
                        format!("stream-not-partitioned/{drv}"),
                        "stream {res}: the {} chunks returned to its readers (lengths {:?}) are not, in any order, a prefix of the {} fed bytes: something was lost, duplicated or swapped",
                        chunks.len(),
                        chunks.iter().map(|c| c.len()).collect::<Vec<_>>(),
                        s.fed.len()
                    );
                }
                if s.eof_seen && total != s.fed.len() {
                    vio!(self, format!("eof-before-data/{drv}"), "stream {res}: a reader got end-of-stream although only {total} of {} fed bytes were delivered", s.fed.len());
                }
            } else {
                // some reader was cancelled or let go (its data may be gone with it): the chunks must still
                // be pairwise disjoint segments of the stream
                fn place(fed: &[u8], chunks: &[&[u8]], k: usize, taken: &mut Vec<(usize, usize)>) -> bool {
                    if k == chunks.len() {
                        return true;
                    }
                    let n = chunks[k].len();
                    if fed.len() < n {
                        return false;
                    }
                    for st in 0..=fed.len() - n {
                        if &fed[st..st + n] == chunks[k] && !taken.iter().any(|&(a, l)| st < a + l && a < st + n) {
                            taken.push((st, n));
                            if place(fed, chunks, k + 1, taken) {
                                return true;
                            }
                            taken.pop();
                        }
                    }
                    false
                }
                let mut sorted = chunks.clone();
                sorted.sort_by_key(|c| std::cmp::Reverse(c.len()));
                if !place(&s.fed, &sorted, 0, &mut vec![]) {
                    vio!(self, format!("stream-overlap/{drv}"), "stream {res}: the chunks returned to its readers (lengths {:?}) cannot be disjoint segments of the {} fed bytes", sorted.iter().map(|c| c.len()).collect::<Vec<_>>(), s.fed.len());
                }
            }
        }
        // sends: what the peer read is a prefix-consistent concatenation of the successful payloads
        if self.p.is_some() {
            let want: Vec<u8> =
                self.ops.iter().enumerate().filter(|(_, o)| o.kind == Kind::SendZc && o.st == St::Done && o.cap > 0).flat_map(|(i, o)| (0..o.cap).map(move |j| pattern(20 + i, j))).collect();
            if self.received.len() > want.len() || self.received[..] != want[..self.received.len()] {
                vio!(self, format!("send-data-mismatch/{drv}"), "peer of stream 1 read {} bytes that are not the sent payloads in order ({} expected)", self.received.len(), want.len());
            }
        }
        Ok(())
    }
}

// ------------------------------------------------------------------------------------------------
// C01: lifetime oracle over the whole log

fn check_lifetimes(lab: &Lab, items: &[Item]) -> R<()> {
    #[derive(Default, Clone)]
    struct S {
        alive: bool,
        iour_submitted: bool,
        final_cqe: bool,
        blocking: bool,
        pool_done: bool,
        notif: bool,
        more_seen: bool,
    }
    let drv = if lab.iour { "iour" } else { "poll" };
    let mut st: HashMap<(usize, usize), S> = HashMap::new();
    let mut gen: HashMap<usize, usize> = HashMap::new();
    let mut ring_closed = false;
    let mut held: HashMap<(usize, usize), bool> = HashMap::new(); // storage -> lab holds key
    let id_of_op: HashMap<usize, (usize, usize)> = lab.ops.iter().enumerate().filter_map(|(i, o)| o.hook_id.map(|h| (i, (h, o.hook_gen)))).collect();
    let op_of_buf: HashMap<u32, usize> = lab.ops.iter().enumerate().filter_map(|(i, o)| o.buf_id.map(|b| (b, i))).collect();
    let mut buf_dropped: HashMap<u32, u32> = HashMap::new();
    let mut buf_returned: HashSet<u32> = HashSet::new();
    let mut allocs = 0usize;
    let mut frees = 0usize;
    macro_rules! v {
        ($cat:expr, $($fmt:tt)+) => {
            return Err(Outcome::violation(format!("C01/{}/{}", $cat, drv), format!($($fmt)+)))
        };
    }
    let in_os = |s: &S, ring_closed: bool| -> bool { (s.iour_submitted && !s.final_cqe && !ring_closed) || (s.blocking && !s.pool_done) };
    for (pos, it) in items.iter().enumerate() {
        match it {
            Item::Hook(e, tid) => match *e {
                Event::OpAlloc { id } => {
                    allocs += 1;
                    let g = gen.entry(id).or_default();
                    *g += 1;
                    st.insert((id, *g), S { alive: true, ..Default::default() });
                }
                Event::Submit { id, path } => {
                    let s = st.entry((id, gen.get(&id).copied().unwrap_or(0))).or_default();
                    match path {
                        SubmitPath::Iour => {
                            s.iour_submitted = true;
                            s.final_cqe = false;
                        }
                        SubmitPath::Blocking => {
                            s.blocking = true;
                            s.pool_done = false;
                        }
                        SubmitPath::PollWait => {}
                    }
                }
                Event::Cqe { user_data, flags, res } => {
                    if user_data >= u64::MAX - 1 {
                        continue;
                    }
                    let id = user_data as usize;
                    match st.get_mut(&(id, gen.get(&id).copied().unwrap_or(0))) {
                        Some(s) if s.alive => {
                            if flags & F_NOTIF != 0 {
                                s.notif = true;
                            }
                            if flags & F_MORE != 0 {
                                s.more_seen = true;
                            } else {
                                s.final_cqe = true;
                            }
                        }
                        _ => v!("cqe-after-free", "log[{pos}]: completion (res {res}, flags {flags:#x}) for operation storage {id:#x} that was already released"),
                    }
                }
                Event::PoolDone { id } => {
                    if let Some(s) = st.get_mut(&(id, gen.get(&id).copied().unwrap_or(0))) {
                        s.pool_done = true;
                    }
                }
                Event::PoolSent { .. } => {}
                Event::RingClosed => ring_closed = true,
                Event::OpFree { id } => {
                    frees += 1;
                    let key = (id, gen.get(&id).copied().unwrap_or(0));
                    let Some(s) = st.get_mut(&key) else { continue };
                    if !s.alive {
                        v!("double-free", "log[{pos}]: operation storage {id:#x} released twice");
                    }
                    if s.iour_submitted && !s.final_cqe && !ring_closed {
                        v!("freed-before-final-cqe", "log[{pos}]: operation storage {id:#x} released while the kernel still owns the request (no final CQE, ring open; F_MORE seen: {})", s.more_seen);
                    }
                    if s.blocking && !s.pool_done {
                        v!("freed-before-pool-done", "log[{pos}]: operation storage {id:#x} released while its thread-pool job was still running");
                    }
                    if held.get(&key).copied().unwrap_or(false) {
                        v!("freed-while-key-held", "log[{pos}]: operation storage {id:#x} released although the submitter still holds its key (thread {tid:?})");
                    }
                    s.alive = false;
                }
            },
            Item::DriverDropped => {}
            Item::Hold { op } => {
                if let Some(h) = id_of_op.get(op) {
                    held.insert(*h, true);
                }
            }
            Item::Release { op } => {
                if let Some(h) = id_of_op.get(op) {
                    held.insert(*h, false);
                }
            }
            Item::BufReturned { buf } => {
                buf_returned.insert(*buf);
                if let Some(op) = op_of_buf.get(buf) {
                    if let Some(s) = id_of_op.get(op).and_then(|h| st.get(h)) {
                        if in_os(s, ring_closed) {
                            v!("buffer-returned-early", "log[{pos}]: buffer {buf} of op #{op} handed back while the OS still owns the request");
                        }
                        if lab.ops[*op].kind == Kind::SendZc && lab.iour && s.iour_submitted && !s.notif {
                            v!("zerocopy-buffer-before-notif", "log[{pos}]: zero-copy send op #{op} returned its buffer before the kernel's F_NOTIF completion");
                        }
                    }
                }
            }
            Item::BufDrop { buf } => {
                let n = buf_dropped.entry(*buf).or_default();
                *n += 1;
                if *n > 1 {
                    v!("buffer-released-twice", "log[{pos}]: buffer {buf} dropped twice");
                }
                if !buf_returned.contains(buf) {
                    if let Some(op) = op_of_buf.get(buf) {
                        if let Some(s) = id_of_op.get(op).and_then(|h| st.get(h)) {
                            if in_os(s, ring_closed) {
                                v!("buffer-released-in-flight", "log[{pos}]: buffer {buf} of op #{op} ({:?}) released while the OS still owns the request", lab.ops[*op].kind);
                            }
                        }
                    }
                }
            }
            Item::FdClose { res } => {
                for (i, o) in lab.ops.iter().enumerate() {
                    if o.res == *res {
                        if let Some(s) = o.hook_id.and_then(|h| st.get(&(h, o.hook_gen))) {
                            if s.alive && in_os(s, ring_closed) {
                                v!("descriptor-closed-in-flight", "log[{pos}]: descriptor of resource {res} closed while op #{i} ({:?}) using it is still in the OS", o.kind);
                            }
                        }
                    }
                }
            }
        }
    }
    // known shape: a pool job finished after the driver had been dropped — its completion entry cannot be
    // released on the pool thread and is leaked by design (FrozenKey policy)
    {
        let mut dropped_at = None;
        let mut done_after_drop: HashSet<usize> = HashSet::new();
        for (pos, it) in items.iter().enumerate() {
            match it {
                Item::DriverDropped => dropped_at = Some(pos),
                Item::Hook(Event::PoolDone { id }, _) if dropped_at.is_some() => {
                    done_after_drop.insert(*id);
                }
                // the job computed its result in time but found the driver gone when handing it back
                Item::Hook(Event::PoolSent { id, delivered: false }, _) => {
                    done_after_drop.insert(*id);
                }
                _ => {}
            }
        }
        let alive: Vec<usize> = st.iter().filter(|(_, s)| s.alive).map(|(k, _)| k.0).collect();
        if !alive.is_empty() && alive.iter().all(|id| done_after_drop.contains(id)) {
            v!("leaked-op/pool-job-outlived-driver", "{} thread-pool operation(s) finished after the driver was dropped and were never released", alive.len());
        }
    }
    if allocs != frees {
        let leaked: Vec<String> = st.iter().filter(|(_, s)| s.alive).map(|(id, _)| format!("{:#x}", id.0)).collect();
        v!("leaked-op", "{allocs} operation storages allocated, {frees} released after everything was dropped (alive: {leaked:?})");
    }
    for o in lab.ops.iter() {
        if let Some(b) = o.buf_id {
            if buf_dropped.get(&b).copied().unwrap_or(0) != 1 {
                v!("buffer-not-released", "buffer {b} of a {:?} op was released {} times after everything was dropped", o.kind, buf_dropped.get(&b).copied().unwrap_or(0));
            }
        }
    }
    Ok(())
}

// ------------------------------------------------------------------------------------------------
// interpreter

pub fn run(case: &Case, mode: Mode) -> Outcome {
    let t0 = Instant::now();
    let o = run_timed(case, mode);
    if std::env::var("VERIF_SLOW").is_ok() && t0.elapsed() > Duration::from_millis(400) {
        eprintln!("SLOW {:?} {}", t0.elapsed(), vcore::serde_json::to_string(case).unwrap());
    }
    o
}

fn run_timed(case: &Case, mode: Mode) -> Outcome {
    // reset process-global state
    LOG.lock().unwrap_or_else(|e| e.into_inner()).clear();
    QUARANTINE.lock().unwrap_or_else(|e| e.into_inner()).clear();
    let mut lab = match Lab::new(case, mode) {
        Ok(l) => l,
        Err(e) => return Outcome::inconclusive(format!("lab setup failed: {e}")),
    };
    let r = run_inner(&mut lab, case);
    // ---- teardown in every case, so nothing leaks into the next case
    let path = lab.file_path.clone();
    let result = match r {
        Err(o) => {
            teardown(&mut lab);
            o
        }
        Ok(()) => match finish(&mut lab) {
            Err(o) => o,
            Ok(()) => {
                let mut labels: Vec<String> = lab.labels.iter().cloned().collect();
                labels.sort();
                labels.push(format!("drv:{}", if lab.iour { "iour" } else { "poll" }));
                labels.push(format!("cap:{}", CAPS[case.cap_ix as usize % CAPS.len()]));
                Outcome::pass_owned(lab.nontrivial, labels)
            }
        },
    };
    let _ = std::fs::remove_file(path);
    if (std::env::var("VERIF_DUMP_LOG").is_ok() && result.is_violation()) || std::env::var("VERIF_DUMP_ALWAYS").is_ok() {
        for (i, it) in log_since(0).iter().enumerate() {
            eprintln!("  log[{i}] {it:?}");
        }
        for (i, o) in lab.ops.iter().enumerate() {
            eprintln!("  op#{i} {:?} res {} hook {:x?} st {:?} paths {:?}", o.kind, o.res, o.hook_id, o.st, o.paths);
        }
    }
    result
}

fn run_inner(lab: &mut Lab, case: &Case) -> R<()> {
    for step in &case.steps {
        match *step {
            Step::Submit { kind, res, cap, pf } => lab.submit(kind, res, cap, pf)?,
            Step::Feed { res, n } => lab.feed(res, n),
            Step::CloseEnd { res } => lab.close_end(res),
            Step::Connect => lab.connect()?,
            Step::OpenGate { job } => lab.open_gate(job),
            Step::Poll { block } => lab.poll(Duration::from_millis(if block { 20 } else { 0 }))?,
            Step::Pop { op } => {
                if let Some(i) = lab.pick_op(op) {
                    lab.pop(i)?;
                }
            }
            Step::PopMulti { op } => {
                if let Some(i) = lab.pick_op(op) {
                    lab.pop_multi(i)?;
                }
            }
            Step::SetWaker { op } => {
                if let Some(i) = lab.pick_op(op) {
                    lab.set_waker(i)?;
                }
            }
            Step::Cancel { op } => {
                if let Some(i) = lab.pick_op(op) {
                    lab.cancel_drop(i)?;
                }
            }
            Step::CancelToken { op } => {
                if let Some(i) = lab.pick_op(op) {
                    lab.cancel_token(i, false)?;
                }
            }
            Step::CancelTwice { op } => {
                if let Some(i) = lab.pick_op(op) {
                    lab.cancel_token(i, true)?;
                }
            }
            Step::DropHandle { res } => lab.drop_handle(res),
            Step::DropDriver => lab.drop_driver(lab.keep_pool_jobs),
            Step::Flush => {
                if let Some(p) = lab.p.as_mut() {
                    p.flush();
                    lab.label("flush");
                }
            }
            Step::Wake => {
                if let Some(p) = lab.p.as_ref() {
                    p.waker().wake();
                    lab.label("wake");
                }
            }
            Step::JobRace { res, n } => lab.job_race(res, n)?,
        }
    }
    Ok(())
}

fn pool_jobs_open() -> usize {
    let items = log_since(0);
    let mut open: HashSet<usize> = HashSet::new();
    for it in &items {
        if let Item::Hook(e, _) = it {
            match *e {
                Event::Submit { id, path: SubmitPath::Blocking } => {
                    open.insert(id);
                }
                // the job is only out of the way once its entry was handed back (or found nobody to take it)
                Event::PoolSent { id, .. } => {
                    open.remove(&id);
                }
                _ => {}
            }
        }
    }
    open.len()
}

fn wait_pool_done(lab: &Lab) -> bool {
    let t0 = Instant::now();
    loop {
        let items = log_since(0);
        let mut open: HashSet<usize> = HashSet::new();
        for it in &items {
            if let Item::Hook(e, _) = it {
                match *e {
                    Event::Submit { id, path: SubmitPath::Blocking } => {
                        open.insert(id);
                    }
                    Event::PoolSent { id, .. } => {
                        open.remove(&id);
                    }
                    _ => {}
                }
            }
        }
        if open.is_empty() {
            return true;
        }
        if t0.elapsed() > Duration::from_secs(30) {
            let _ = lab;
            return false;
        }
        std::thread::sleep(Duration::from_millis(1));
    }
}

fn teardown(lab: &mut Lab) {
    for o in lab.ops.iter_mut() {
        if let Some(g) = &o.job_gate {
            g.store(true, Ordering::SeqCst);
        }
    }
    wait_pool_done(lab);
    // keys first or last makes no difference for safety; drop the driver first (harder case)
    lab.p = None;
    for (i, o) in lab.ops.iter_mut().enumerate() {
        if o.key.is_some() {
            log(Item::Release { op: i });
        }
        o.key = None;
    }
    lab.streams.clear();
    lab.listener = None;
    lab.file = None;
    lab.clients.clear();
    // let pool threads finish dropping what they own
    std::thread::sleep(Duration::from_millis(2));
}

fn finish(lab: &mut Lab) -> R<()> {
    let driver_alive = lab.p.is_some();
    if driver_alive {
        lab.settle_cancels()?;
        lab.supply_all()?;
        lab.quiesce()?;
        lab.wake_probe()?;
        lab.check_streams()?;
    } else {
        // driver already gone: still supply everything, the kernel / pool must not touch freed memory
        lab.supply_all()?;
        for _ in 0..3 {
            std::thread::yield_now();
        }
    }
    let inflight_at_drop = lab.labels.iter().any(|l| l.ends_with("while-in-flight"));
    if lab.mode == Mode::C01 && inflight_at_drop {
        lab.nontrivial = true;
    }
    if !wait_pool_done(lab) {
        teardown(lab);
        return Err(Outcome::inconclusive("thread-pool job did not finish within 30 s"));
    }
    teardown(lab);
    // pool threads may still be dropping their entry: wait until alloc == free or 2 s
    let t0 = Instant::now();
    loop {
        let items = log_since(0);
        let a = items.iter().filter(|i| matches!(i, Item::Hook(Event::OpAlloc { .. }, _))).count();
        let f = items.iter().filter(|i| matches!(i, Item::Hook(Event::OpFree { .. }, _))).count();
        if a == f || t0.elapsed() > Duration::from_secs(2) {
            break;
        }
        std::thread::sleep(Duration::from_millis(1));
    }
    if lab.mode == Mode::C01 {
        let items = log_since(0);
        check_lifetimes(lab, &items)?;
        // quarantine canaries: nobody wrote into a released buffer
        let q = QUARANTINE.lock().unwrap_or_else(|e| e.into_inner());
        for (id, m) in q.iter() {
            if let Some(at) = m.iter().position(|b| *b != CANARY) {
                return Err(Outcome::violation(
                    format!("C01/write-after-release/{}", if lab.iour { "iour" } else { "poll" }),
                    format!("buffer {id} was written at offset {at} after it had been released"),
                ));
            }
        }
    }
    Ok(())
}

// ------------------------------------------------------------------------------------------------
// generators

fn kind_strategy(mode: Mode) -> SBoxedStrategy<Kind> {
    match mode {
        Mode::C05 => prop_oneof![5 => Just(Kind::Recv), 3 => Just(Kind::ReadPipe), 2 => Just(Kind::Accept), 1 => Just(Kind::AcceptMulti), 2 => Just(Kind::PollOnce), 1 => Just(Kind::Job)].sboxed(),
        _ => prop_oneof![
            5 => Just(Kind::Recv),
            3 => Just(Kind::ReadPipe),
            2 => Just(Kind::Accept),
            1 => Just(Kind::AcceptMulti),
            2 => Just(Kind::PollOnce),
            2 => Just(Kind::Job),
            2 => Just(Kind::ReadAt),
            2 => Just(Kind::SendZc)
        ]
        .sboxed(),
    }
}

fn step_strategy(mode: Mode) -> SBoxedStrategy<Step> {
    let submit = (kind_strategy(mode), any::<u16>(), any::<u16>(), prop_oneof![2 => Just(false), 1 => Just(true)]).prop_map(|(kind, res, cap, pf)| Step::Submit { kind, res, cap, pf });
    let feed = (any::<u16>(), any::<u16>()).prop_map(|(res, n)| Step::Feed { res, n });
    let close = any::<u16>().prop_map(|res| Step::CloseEnd { res });
    let gate = any::<u16>().prop_map(|job| Step::OpenGate { job });
    let poll = any::<bool>().prop_map(|block| Step::Poll { block });
    let pop = any::<u16>().prop_map(|op| Step::Pop { op });
    let popm = any::<u16>().prop_map(|op| Step::PopMulti { op });
    let wk = any::<u16>().prop_map(|op| Step::SetWaker { op });
    let cancel = any::<u16>().prop_map(|op| Step::Cancel { op });
    let tok = any::<u16>().prop_map(|op| Step::CancelToken { op });
    let tok2 = any::<u16>().prop_map(|op| Step::CancelTwice { op });
    let dh = any::<u16>().prop_map(|res| Step::DropHandle { res });
    let harness = prop_oneof![6 => feed, 1 => close, 2 => Just(Step::Connect), 2 => gate];
    let observe = prop_oneof![5 => poll, 4 => pop, 1 => popm, 2 => wk, 1 => Just(Step::Flush), 1 => Just(Step::Wake)];
    let race = (any::<u16>(), any::<u16>()).prop_map(|(res, n)| Step::JobRace { res, n });
    match mode {
        Mode::C02 => prop_oneof![8 => submit, 11 => harness, 12 => observe, 2 => race].sboxed(),
        Mode::C05 => prop_oneof![8 => submit, 7 => harness, 9 => observe, 3 => cancel, 4 => tok, 2 => tok2].sboxed(),
        Mode::C01 => prop_oneof![9 => submit, 9 => harness, 8 => observe, 4 => cancel, 2 => tok, 2 => dh, 1 => Just(Step::DropDriver)].sboxed(),
    }
}

pub fn strategy(mode: Mode) -> SBoxedStrategy<Case> {
    (any::<bool>(), 0u8..5, 0u8..3, vec(step_strategy(mode), 0..40)).prop_map(|(iour, cap_ix, pool_ix, steps)| Case { iour, cap_ix, pool_ix, steps }).sboxed()
}

pub fn regressions(mode: Mode) -> Vec<(&'static str, Case)> {
    let recv = |res: u16| Step::Submit { kind: Kind::Recv, res, cap: 30000, pf: false };
    let sub = |kind: Kind| Step::Submit { kind, res: 0, cap: 20000, pf: false };
    let mut v = vec![];
    match mode {
        Mode::C02 => {
            for iour in [true, false] {
                v.push((
                    "two-recv-one-fd-capacity-1",
                    Case { iour, cap_ix: 0, pool_ix: 0, steps: vec![recv(0), recv(0), recv(40000), Step::Feed { res: 0, n: 20000 }, Step::Poll { block: true }, Step::Pop { op: 0 }] },
                ));
                // former finding (fixed 433735c): with SQ capacity 1 the second AsyncCancel was dropped, so the
                // second multishot accept never finished
                // a wake-up while the completion queue overflows ends the notifier's multishot poll
                // without an error: the driver must re-arm it (judged by the wake probe)
                v.push((
                    "wake-during-cq-overflow-burst",
                    Case {
                        iour,
                        cap_ix: 0,
                        pool_ix: 0,
                        steps: vec![
                            Step::Poll { block: false },
                            recv(0),
                            recv(40000),
                            Step::Submit { kind: Kind::ReadPipe, res: 0, cap: 30000, pf: false },
                            Step::Flush,
                            Step::Feed { res: 0, n: 20000 },
                            Step::Feed { res: 30000, n: 20000 },
                            Step::Feed { res: 60000, n: 20000 },
                            Step::Wake,
                            Step::Poll { block: false },
                        ],
                    },
                ));
                // a pool job whose wake-up arrives in the same poll round as a readiness event: its completion must
                // not wait for an idle round or a timeout (polling driver: the channel is looked at every round)
                v.push((
                    "job-finishes-during-poll-with-readiness",
                    Case { iour, cap_ix: 3, pool_ix: 1, steps: vec![recv(0), Step::JobRace { res: 0, n: 0 }, recv(40000), Step::JobRace { res: 30000, n: 30000 }, Step::JobRace { res: 65535, n: 9 }] },
                ));
                v.push(("two-accept-multi-capacity-1", Case { iour, cap_ix: 0, pool_ix: 0, steps: vec![sub(Kind::AcceptMulti), sub(Kind::AcceptMulti), Step::Connect] }));
            }
        }
        Mode::C05 => {
            for iour in [true, false] {
                for cap_ix in [0u8, 1, 4] {
                    v.push((
                        "token-cancel-middle-of-three",
                        Case { iour, cap_ix, pool_ix: 0, steps: vec![recv(0), recv(0), recv(0), Step::CancelToken { op: 30000 }, Step::Poll { block: false }] },
                    ));
                    // former finding: a poll-first accept / receive cancelled in the submission batch that carries it
                    // (the kernel answered ENOENT and the operation stayed pending)
                    v.push((
                        "token-cancel-poll-first-same-batch",
                        Case {
                            iour,
                            cap_ix,
                            pool_ix: 0,
                            steps: vec![
                                Step::Submit { kind: Kind::Accept, res: 0, cap: 0, pf: true },
                                Step::Submit { kind: Kind::Recv, res: 0, cap: 30000, pf: true },
                                Step::CancelToken { op: 0 },
                                Step::CancelToken { op: 40000 },
                            ],
                        },
                    ));
                    // former finding (fixed 433735c): cancel lost when the submission queue is full
                    v.push(("drop-key-with-full-sq", Case { iour, cap_ix, pool_ix: 0, steps: vec![recv(0), Step::Cancel { op: 0 }] }));
                    v.push(("token-cancel-with-full-sq", Case { iour, cap_ix, pool_ix: 0, steps: vec![recv(0), recv(40000), Step::CancelToken { op: 0 }, Step::CancelToken { op: 40000 }] }));
                }
            }
        }
        Mode::C01 => {
            for iour in [true, false] {
                v.push((
                    "drop-driver-with-recv-and-job-in-flight",
                    Case { iour, cap_ix: 1, pool_ix: 0, steps: vec![recv(0), sub(Kind::Job), sub(Kind::SendZc), Step::DropDriver, Step::Feed { res: 0, n: 60000 }] },
                ));
                // known finding: a pool job that outlives the driver leaks its operation (cap_ix >= 100 keeps the job gated)
                v.push(("known-pool-job-outlives-driver", Case { iour, cap_ix: 101, pool_ix: 0, steps: vec![sub(Kind::Job), Step::DropDriver] }));
                // former finding (fixed 54eec8d): two F_MORE completions queued when the driver is dropped
                v.push(("drop-driver-with-two-multishot-items-queued", Case { iour, cap_ix: 0, pool_ix: 0, steps: vec![sub(Kind::AcceptMulti), sub(Kind::ReadAt), Step::Connect, Step::Connect, Step::DropDriver] }));
                v.push(("drop-driver-with-zerocopy-completions-queued", Case { iour, cap_ix: 3, pool_ix: 0, steps: vec![sub(Kind::SendZc), sub(Kind::SendZc), Step::Poll { block: false }, sub(Kind::SendZc), Step::DropDriver] }));
            }
        }
    }
    v
}
