#!/usr/bin/env python3
"""Validate MANIFEST.json and every evidence file against the schemas (uses the tooling venv)."""
import json, glob, sys
import jsonschema
m = json.load(open('/verif/MANIFEST.json'))
jsonschema.validate(m, json.load(open('/root/.vp/MANIFEST.schema.json')))
es = json.load(open('/root/.vp/EVIDENCE.schema.json'))
ids = [l and json.loads(l)['id'] for l in open('/verif/properties.jsonl') if l.strip()]
claimed = [c['property_id'] for c in m['checks']]
na = [c['property_id'] for c in m.get('not_applicable', [])]
for i in ids:
    if i not in claimed and i not in na:
        print('WARNING: property neither claimed nor not_applicable:', i)
for f in sorted(glob.glob('/verif/evidence/C*.json')):
    try:
        jsonschema.validate(json.load(open(f)), es)
    except Exception as e:
        print('INVALID', f, str(e)[:300]); sys.exit(1)
print('manifest ok; claimed', claimed)
