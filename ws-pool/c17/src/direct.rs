//! C17 part `direct`: harness threads call `AsyncifyPool::dispatch` themselves.
use std::{
    panic::{catch_unwind, AssertUnwindSafe},
    sync::{
        atomic::{AtomicBool, AtomicU32, AtomicU64, AtomicUsize, Ordering},
        mpsc, Arc,
    },
    time::{Duration, Instant},
};

use compio_driver::{AsyncifyPool, DispatchError};
use serde::{Deserialize, Serialize};
use vcore::{
    mono_ix,
    proptest::{collection::vec, prelude::*},
    Outcome, Part, Session,
};

use crate::{job_body, payload_string, tasks_named, wait_no_workers, Shared, StartLine, Token, DISP, INLINE, PANIC_MARK};

#[derive(Debug, Clone, Copy, Serialize, Deserialize, PartialEq)]
pub enum Body {
    /// returns a value through the result channel
    Value,
    /// panics inside its own `catch_unwind` and reports the payload (what the drivers do)
    PanicCaught,
    /// panics on the pool thread (what `Dispatcher::dispatch_blocking` jobs may do): the worker dies
    PanicRaw,
}

#[derive(Debug, Clone, Copy, Serialize, Deserialize, PartialEq)]
pub enum OnFull {
    /// retry `dispatch` with the handed-back closure until accepted (what the drivers do)
    Retry,
    /// run the handed-back closure on the dispatching thread
    RunInline,
    /// drop the handed-back closure
    DropIt,
}

#[derive(Debug, Clone, Serialize, Deserialize)]
pub struct DJob {
    /// dispatching thread (raw draw mapped into 0..threads)
    pub thread: u16,
    pub dur_us: u16,
    pub body: Body,
    pub on_full: OnFull,
}

#[derive(Debug, Clone, Copy, Serialize, Deserialize, PartialEq)]
pub enum Gap {
    /// milliseconds of sleep after the phase's jobs have finished (straddles the idle timeout)
    Sleep(u8),
    /// wait until no pool worker thread exists any more (all retired)
    Retire,
}

#[derive(Debug, Clone, Serialize, Deserialize)]
pub struct Phase {
    pub jobs: Vec<DJob>,
    pub gap: Gap,
}

#[derive(Debug, Clone, Serialize, Deserialize)]
pub struct DirectCase {
    pub limit: u8,
    pub idle_ms: u8,
    pub threads: u8,
    pub phases: Vec<Phase>,
    /// reproduction aid for hand-written cases only (always 0 in generated cases): number of
    /// spinning threads that keep the CPUs oversubscribed while the case runs
    #[serde(default)]
    pub hogs: u8,
}

#[derive(Debug, Clone)]
struct Rec {
    id: usize,
    accepted: bool,
    rejects: u32,
    ran_inline: bool,
    dropped_back: bool,
    gave_up: bool,
    /// single dispatcher: refused although no pool worker thread existed
    refused_dead: bool,
}

enum Cmd {
    Probe(usize),
    Phase(usize),
}

enum Evt {
    Probe(bool),
    Phase(Vec<Rec>),
}

type ResMsg = (usize, Result<u64, String>);

/// What the controller can see of a dispatching thread from outside.
#[derive(Default)]
struct ThreadProbe {
    tid: AtomicU32,
    in_dispatch: AtomicBool,
    calls: AtomicU64,
}

fn own_tid() -> u32 {
    std::fs::read_link("/proc/thread-self").ok().and_then(|p| p.file_name().and_then(|n| n.to_str().and_then(|s| s.parse().ok()))).unwrap_or(0)
}

/// scheduler state letter of a thread (`S` = sleeping in a blocking call such as a futex wait)
fn task_state(tid: u32) -> Option<char> {
    let s = std::fs::read_to_string(format!("/proc/self/task/{tid}/stat")).ok()?;
    s[s.rfind(')')? + 1..].trim_start().chars().next()
}

enum Waited {
    Evt(Evt),
    /// (the event that arrived after the rescue, description)
    Rescued(Evt, String),
    TimedOut,
}

/// Wait for the next event of a dispatching thread.  If a thread sits in one and the same
/// `dispatch` call for 2 s, is asleep, and *no pool worker thread exists* on three samples 100 ms
/// apart, nobody can ever take its job: `dispatch` spawned a worker that idled out before the
/// rendezvous `send`.  Rescue rule: a no-op dispatched from another thread is irrelevant to a
/// correct pool; here its fresh worker first serves the stranded sender, which proves the diagnosis
/// (and frees the thread).
fn wait_evt(rx: &mpsc::Receiver<Evt>, probes: &[Arc<ThreadProbe>], pool: &AsyncifyPool, max: Duration) -> Waited {
    let start = Instant::now();
    let mut last: Vec<(u64, Instant, u32)> = probes.iter().map(|p| (p.calls.load(Ordering::SeqCst), Instant::now(), 0)).collect();
    let mut rescued: Option<String> = None;
    loop {
        match rx.recv_timeout(Duration::from_millis(100)) {
            Ok(e) => {
                return match rescued {
                    Some(d) => Waited::Rescued(e, d),
                    None => Waited::Evt(e),
                }
            }
            Err(mpsc::RecvTimeoutError::Disconnected) => return Waited::TimedOut,
            Err(mpsc::RecvTimeoutError::Timeout) => {}
        }
        if start.elapsed() > max {
            return Waited::TimedOut;
        }
        if rescued.is_some() {
            continue;
        }
        for (p, l) in probes.iter().zip(last.iter_mut()) {
            let calls = p.calls.load(Ordering::SeqCst);
            if calls != l.0 || !p.in_dispatch.load(Ordering::SeqCst) {
                *l = (calls, Instant::now(), 0);
                continue;
            }
            if l.1.elapsed() < Duration::from_secs(2) {
                continue;
            }
            let asleep = task_state(p.tid.load(Ordering::SeqCst)) == Some('S');
            let no_worker = tasks_named(DISP) <= probes.len() + LEAKED.load(Ordering::SeqCst);
            if asleep && no_worker && p.calls.load(Ordering::SeqCst) == calls {
                l.2 += 1;
            } else {
                l.2 = 0;
            }
            if l.2 >= 3 {
                rescued = Some(format!(
                    "a dispatching thread has been asleep inside one dispatch() call for {:.1} s while no pool worker thread exists (the worker spawned for it idled out before the rendezvous send)",
                    l.1.elapsed().as_secs_f64()
                ));
                let pool = pool.clone();
                let _ = std::thread::Builder::new().name("c17resc".into()).spawn(move || {
                    let _ = pool.dispatch(|| {});
                });
                break;
            }
        }
    }
}

/// dispatcher threads that could not be freed (counted out of the worker census of later cases)
static LEAKED: AtomicUsize = AtomicUsize::new(0);

fn expected_value(id: usize) -> u64 {
    (id as u64).wrapping_mul(0x9E37_79B9_7F4A_7C15) ^ 0xC17
}

fn make_job(sh: &Arc<Shared>, id: usize, dur_us: u32, body: Body, res: mpsc::Sender<ResMsg>) -> impl FnOnce() + Send + 'static {
    let token = Token::new(sh, id);
    move || {
        let token = token;
        match body {
            Body::Value => {
                job_body(&token.sh, id, dur_us, false);
                let _ = res.send((id, Ok(expected_value(id))));
            }
            Body::PanicCaught => {
                let r = catch_unwind(AssertUnwindSafe(|| job_body(&token.sh, id, dur_us, true)));
                let _ = res.send((id, Err(r.err().map(|p| payload_string(&*p)).unwrap_or_else(|| "no panic".into()))));
            }
            Body::PanicRaw => job_body(&token.sh, id, dur_us, true),
        }
    }
}

const WATCHDOG: Duration = Duration::from_secs(30);
const RETRY_WATCHDOG: Duration = Duration::from_secs(10);

/// runs of hand-written cases with CPU hogs in this process (they are expensive: capped)
static HOG_RUNS: AtomicUsize = AtomicUsize::new(0);

pub fn run_direct(case: &DirectCase) -> Outcome {
    if case.hogs > 0 && HOG_RUNS.fetch_add(1, Ordering::SeqCst) >= 3 {
        // the reproduction aid is tried three times per process, further repeats are skipped
        return Outcome::pass(false, &["hog-case-skipped"]);
    }
    let threads = case.threads.clamp(1, 6) as usize;
    let limit = case.limit.clamp(1, 8) as usize;
    let idle = Duration::from_millis(case.idle_ms.clamp(1, 50) as u64);
    // isolation: no pool worker of an earlier case may be alive (they retire after <= 50 ms)
    if !wait_no_workers(DISP, LEAKED.load(Ordering::SeqCst), Duration::from_secs(10)) {
        return Outcome::inconclusive("pool workers of an earlier case still alive");
    }
    let hog_stop = Arc::new(AtomicBool::new(false));
    struct StopHogs(Arc<AtomicBool>, Vec<std::thread::JoinHandle<()>>);
    impl Drop for StopHogs {
        fn drop(&mut self) {
            self.0.store(true, Ordering::SeqCst);
            for h in self.1.drain(..) {
                let _ = h.join();
            }
        }
    }
    let _hogs = StopHogs(
        hog_stop.clone(),
        (0..case.hogs)
            .filter_map(|_| {
                let stop = hog_stop.clone();
                std::thread::Builder::new().name("c17hog".into()).spawn(move || while !stop.load(Ordering::Relaxed) { std::hint::spin_loop() }).ok()
            })
            .collect(),
    );
    // job table
    let mut plan: Vec<Vec<Vec<(usize, DJob)>>> = vec![vec![vec![]; threads]; case.phases.len()];
    let mut njobs = 0;
    for (pi, ph) in case.phases.iter().enumerate() {
        for j in &ph.jobs {
            plan[pi][mono_ix(j.thread, threads)].push((njobs, j.clone()));
            njobs += 1;
        }
    }
    let nprobe = case.phases.len();
    // probe jobs (one per phase that follows an observed retirement) get ids after the program's jobs
    let (sh, drop_rx) = Shared::new(njobs + nprobe);
    let pool = AsyncifyPool::new(limit, idle);
    let (res_tx, res_rx) = mpsc::channel::<ResMsg>();
    let (evt_tx, evt_rx) = mpsc::channel::<Evt>();
    let line = Arc::new(StartLine::new());
    let abort = Arc::new(AtomicBool::new(false));
    let plan = Arc::new(plan);
    let mut cmd_txs = vec![];
    let mut handles = vec![];
    let probes: Vec<Arc<ThreadProbe>> = (0..threads).map(|_| Arc::new(ThreadProbe::default())).collect();
    for t in 0..threads {
        let (ctx, crx) = mpsc::channel::<Cmd>();
        cmd_txs.push(ctx);
        let probe = probes[t].clone();
        let (pool, sh, res_tx, evt_tx, line, plan, abort) = (pool.clone(), sh.clone(), res_tx.clone(), evt_tx.clone(), line.clone(), plan.clone(), abort.clone());
        let h = std::thread::Builder::new()
            .name(DISP.into())
            .spawn(move || {
                let mut round = 0;
                probe.tid.store(own_tid(), Ordering::SeqCst);
                let enter = || {
                    probe.calls.fetch_add(1, Ordering::SeqCst);
                    probe.in_dispatch.store(true, Ordering::SeqCst);
                };
                let leave = || probe.in_dispatch.store(false, Ordering::SeqCst);
                while let Ok(cmd) = crx.recv() {
                    match cmd {
                        Cmd::Probe(id) => {
                            let job = make_job(&sh, id, 0, Body::Value, res_tx.clone());
                            enter();
                            let r = pool.dispatch(job);
                            leave();
                            let ok = match r {
                                Ok(()) => true,
                                Err(DispatchError(back)) => {
                                    // keep the exactly-once accounting intact: run it here
                                    INLINE.with(|c| c.set(true));
                                    back();
                                    INLINE.with(|c| c.set(false));
                                    false
                                }
                            };
                            let _ = evt_tx.send(Evt::Probe(ok));
                        }
                        Cmd::Phase(pi) => {
                            round += 1;
                            line.wait(threads, round);
                            let mut recs = vec![];
                            for (id, j) in &plan[pi][t] {
                                let mut rec = Rec { id: *id, accepted: false, rejects: 0, ran_inline: false, dropped_back: false, gave_up: false, refused_dead: false };
                                let mut job = make_job(&sh, *id, j.dur_us as u32, j.body, res_tx.clone());
                                let start = Instant::now();
                                loop {
                                    enter();
                                    let r = pool.dispatch(job);
                                    leave();
                                    match r {
                                        Ok(()) => {
                                            rec.accepted = true;
                                            break;
                                        }
                                        Err(DispatchError(back)) => {
                                            rec.rejects += 1;
                                            match j.on_full {
                                                OnFull::Retry => {
                                                    // exact when this is the only dispatching thread: nobody else can create a
                                                    // worker, so "no worker exists, then dispatch refuses" means the pool is dead
                                                    if threads == 1 && rec.rejects % 64 == 0 && tasks_named(DISP) <= 1 + LEAKED.load(Ordering::SeqCst) {
                                                        enter();
                                                        let r = pool.dispatch(back);
                                                        leave();
                                                        match r {
                                                            Ok(()) => {
                                                                rec.accepted = true;
                                                            }
                                                            Err(DispatchError(back)) => {
                                                                rec.refused_dead = true;
                                                                INLINE.with(|c| c.set(true));
                                                                let _ = catch_unwind(AssertUnwindSafe(back));
                                                                INLINE.with(|c| c.set(false));
                                                                rec.ran_inline = true;
                                                            }
                                                        }
                                                        break;
                                                    }
                                                    if start.elapsed() > RETRY_WATCHDOG || abort.load(Ordering::Relaxed) {
                                                        rec.gave_up = true;
                                                        drop(back);
                                                        break;
                                                    }
                                                    job = back;
                                                    std::thread::yield_now();
                                                }
                                                OnFull::RunInline => {
                                                    INLINE.with(|c| c.set(true));
                                                    let _ = catch_unwind(AssertUnwindSafe(back));
                                                    INLINE.with(|c| c.set(false));
                                                    rec.ran_inline = true;
                                                    break;
                                                }
                                                OnFull::DropIt => {
                                                    drop(back);
                                                    rec.dropped_back = true;
                                                    break;
                                                }
                                            }
                                        }
                                    }
                                }
                                recs.push(rec);
                            }
                            let _ = evt_tx.send(Evt::Phase(recs));
                        }
                    }
                }
            })
            .expect("spawn dispatcher thread");
        handles.push(h);
    }
    drop(res_tx);
    drop(evt_tx);

    let mut recs: Vec<Option<Rec>> = vec![None; njobs + nprobe];
    let mut drops_seen = vec![0u32; njobs + nprobe];
    let mut expected_drops = 0usize;
    let mut got_drops = 0usize;
    let mut labels: Vec<String> = vec![];
    let mut retire_then_job = false;
    let mut probe_refused = false;
    let mut after_retire = false;
    let mut next_probe = njobs;
    let mut inconclusive: Option<String> = None;
    let mut stranded: Option<String> = None;

    'phases: for (pi, ph) in case.phases.iter().enumerate() {
        if after_retire && !ph.jobs.is_empty() {
            // exact: no pool thread exists, so no worker can be counted; the pool must accept
            let id = next_probe;
            next_probe += 1;
            let _ = cmd_txs[0].send(Cmd::Probe(id));
            let w = wait_evt(&evt_rx, &probes, &pool, WATCHDOG);
            let w = match w {
                Waited::Rescued(e, d) => {
                    stranded = Some(d);
                    Waited::Evt(e)
                }
                w => w,
            };
            match w {
                Waited::Evt(Evt::Probe(ok)) => {
                    recs[id] = Some(Rec { id, accepted: ok, rejects: !ok as u32, ran_inline: !ok, dropped_back: false, gave_up: false, refused_dead: false });
                    expected_drops += 1;
                    retire_then_job = true;
                    if !ok {
                        probe_refused = true;
                    }
                }
                _ => {
                    inconclusive = Some("dispatch after retirement did not return".into());
                    break 'phases;
                }
            }
        }
        after_retire = false;
        for c in &cmd_txs {
            let _ = c.send(Cmd::Phase(pi));
        }
        for _ in 0..threads {
            let w = wait_evt(&evt_rx, &probes, &pool, WATCHDOG + Duration::from_secs(10));
            let w = match w {
                Waited::Rescued(e, d) => {
                    stranded = Some(d);
                    Waited::Evt(e)
                }
                w => w,
            };
            match w {
                Waited::Evt(Evt::Phase(rs)) => {
                    for r in rs {
                        expected_drops += 1;
                        let id = r.id;
                        recs[id] = Some(r);
                    }
                }
                _ => {
                    inconclusive = Some("a dispatching thread did not finish its phase".into());
                    break 'phases;
                }
            }
        }
        // wait until every closure dispatched so far has been consumed
        let end = Instant::now() + WATCHDOG;
        while got_drops < expected_drops {
            match drop_rx.recv_timeout(end.saturating_duration_since(Instant::now()).max(Duration::from_millis(1))) {
                Ok(id) => {
                    drops_seen[id] += 1;
                    got_drops += 1;
                }
                Err(_) => {
                    inconclusive = Some("an accepted job was neither run nor dropped within the watchdog".into());
                    break 'phases;
                }
            }
        }
        match ph.gap {
            Gap::Sleep(ms) => {
                std::thread::sleep(Duration::from_millis(ms as u64));
                if ms as u128 >= idle.as_millis() * 2 {
                    labels.push("gap>=2*idle".into());
                }
            }
            Gap::Retire => {
                if wait_no_workers(DISP, threads + LEAKED.load(Ordering::SeqCst), idle * 40 + Duration::from_secs(5)) {
                    after_retire = true;
                    labels.push("retired-observed".into());
                } else {
                    labels.push("retire-not-observed".into());
                }
            }
        }
    }
    abort.store(true, Ordering::Relaxed);
    drop(cmd_txs);
    if inconclusive.is_some() {
        // threads may be stuck inside the pool; do not join them
        let stuck = probes.iter().filter(|p| p.in_dispatch.load(Ordering::SeqCst)).count();
        LEAKED.fetch_add(stuck, Ordering::SeqCst);
        return Outcome::inconclusive(inconclusive.unwrap());
    }
    for h in handles {
        let _ = h.join();
    }
    drop(pool);
    // late drop events (none expected) and results
    while let Ok(id) = drop_rx.try_recv() {
        drops_seen[id] += 1;
    }
    let mut results: Vec<Vec<Result<u64, String>>> = vec![vec![]; njobs + nprobe];
    while let Ok((id, r)) = res_rx.try_recv() {
        results[id].push(r);
    }

    // ------------------------------------------------------------------ oracle
    // class = how many threads ever called dispatch (thread 0 also sends the probes)
    let mut active: Vec<bool> = (0..threads).map(|t| plan.iter().any(|ph| !ph[t].is_empty())).collect();
    if retire_then_job {
        active[0] = true;
    }
    let class = if active.iter().filter(|a| **a).count() <= 1 { "single-dispatch" } else { "concurrent-dispatch" };
    let mut saturated = false;
    let all_jobs: Vec<(usize, Body)> = case
        .phases
        .iter()
        .flat_map(|p| p.jobs.iter())
        .enumerate()
        .map(|(i, j)| (i, j.body))
        .chain((njobs..next_probe).map(|i| (i, Body::Value)))
        .collect();
    for (id, body) in all_jobs {
        let Some(r) = &recs[id] else { continue };
        if r.gave_up {
            return Outcome::inconclusive("retrying dispatcher gave up after the watchdog");
        }
        if r.refused_dead {
            probe_refused = true;
        }
        if r.rejects > 0 {
            saturated = true;
        }
        let exec = sh.jobs[id].exec.load(Ordering::SeqCst);
        let dropped = sh.jobs[id].dropped.load(Ordering::SeqCst);
        if exec > 1 {
            return Outcome::violation("C17/job-ran-twice", format!("job {id} ({body:?}) executed {exec} times; record {r:?}"));
        }
        if dropped != 1 {
            return Outcome::violation(
                if dropped == 0 { "C17/closure-leaked" } else { "C17/closure-dropped-twice" },
                format!("job {id}: closure destroyed {dropped} times (exec {exec}); record {r:?}"),
            );
        }
        let should_run = r.accepted || r.ran_inline;
        if should_run && exec == 0 {
            return Outcome::violation(
                if r.accepted { "C17/accepted-job-dropped" } else { "C17/handed-back-closure-is-not-the-job" },
                format!("job {id} ({body:?}) was {} but its closure was destroyed without running; record {r:?}", if r.accepted { "accepted (Ok)" } else { "handed back and run inline" }),
            );
        }
        if !should_run && exec != 0 {
            return Outcome::violation("C17/handed-back-job-also-ran", format!("job {id}: dispatch returned the closure (dropped by the caller) but the job executed {exec} times"));
        }
        // result or panic reaches the submitter
        let want: Option<Result<u64, ()>> = match (should_run, body) {
            (false, _) | (true, Body::PanicRaw) => None,
            (true, Body::Value) => Some(Ok(expected_value(id))),
            (true, Body::PanicCaught) => Some(Err(())),
        };
        match (want, results[id].as_slice()) {
            (None, []) => {}
            (Some(Ok(v)), [Ok(g)]) if *g == v => {}
            (Some(Err(())), [Err(p)]) if p.contains(PANIC_MARK) && p.ends_with(&format!(" {id}")) => {}
            (w, got) => {
                return Outcome::violation("C17/result-mismatch", format!("job {id} ({body:?}): expected {w:?}, submitter received {got:?}"));
            }
        }
    }
    if let Some(d) = stranded {
        return Outcome::violation("C17/dispatch-blocked/no-worker-alive", format!("limit {limit}, idle timeout {} ms: {d}; a no-op dispatched from another thread released it", idle.as_millis()));
    }
    if probe_refused {
        return Outcome::violation(
            "C17/refused-with-no-worker-alive",
            format!("limit {limit}: every pool worker thread had exited (no task named {DISP} besides the {threads} dispatchers), yet dispatch handed the job back"),
        );
    }
    // hygiene + retirement really happens
    let clean = wait_no_workers(DISP, LEAKED.load(Ordering::SeqCst), idle * 40 + Duration::from_secs(5));
    if !clean {
        labels.push(format!("workers-alive-at-end:{}", tasks_named(DISP)));
    }
    let max = sh.max_running.load(Ordering::SeqCst) as usize;
    let workers = sh.workers.lock().unwrap();
    if workers.values().any(|n| *n >= 2) {
        labels.push("worker-reused".into());
    }
    if workers.len() > limit {
        labels.push("distinct-workers>limit".into());
    }
    labels.push(class.into());
    if saturated {
        labels.push("saturated".into());
    }
    if retire_then_job {
        labels.push("job-after-retirement".into());
    }
    if max == limit {
        labels.push("gauge==limit".into());
    }
    if case.phases.iter().flat_map(|p| p.jobs.iter()).any(|j| j.body == Body::PanicRaw) {
        labels.push("panic-raw".into());
    }
    if max > limit {
        return Outcome::violation(
            format!("C17/limit-exceeded/{class}"),
            format!("limit {limit}: {max} pool jobs were running at the same moment ({threads} dispatching thread(s), {} distinct worker threads)", workers.len()),
        );
    }
    Outcome::pass_owned(saturated || retire_then_job, labels)
}

// ------------------------------------------------------------------------------------------------

fn job_strategy() -> impl Strategy<Value = DJob> + Clone {
    (
        any::<u16>(),
        prop_oneof![3 => Just(0u16), 3 => 0u16..600, 3 => 600u16..6000, 1 => 6000u16..20000],
        prop_oneof![8 => Just(Body::Value), 1 => Just(Body::PanicCaught), 1 => Just(Body::PanicRaw)],
        prop_oneof![5 => Just(OnFull::Retry), 2 => Just(OnFull::RunInline), 2 => Just(OnFull::DropIt)],
    )
        .prop_map(|(thread, dur_us, body, on_full)| DJob { thread, dur_us, body, on_full })
}

fn phase_strategy() -> impl Strategy<Value = Phase> + Clone {
    (vec(job_strategy(), 1..=14), prop_oneof![2 => Just(Gap::Sleep(0)), 3 => (0u8..=110).prop_map(Gap::Sleep), 3 => Just(Gap::Retire)]).prop_map(|(jobs, gap)| Phase { jobs, gap })
}

pub fn case_strategy() -> impl Strategy<Value = DirectCase> + Clone {
    (
        prop_oneof![3 => Just(1u8), 3 => Just(2u8), 2 => 3u8..=4, 1 => 5u8..=8],
        5u8..=50,
        prop_oneof![4 => Just(1u8), 6 => 2u8..=6],
        vec(phase_strategy(), 1..=3),
    )
        .prop_map(|(limit, idle_ms, threads, phases)| DirectCase { limit, idle_ms, threads, phases, hogs: 0 })
}

fn burst(n: usize, threads: u16, dur_us: u16) -> Vec<DJob> {
    (0..n).map(|i| DJob { thread: ((i as u32 * 65536 / threads as u32) % 65536) as u16, dur_us, body: Body::Value, on_full: OnFull::Retry }).collect()
}

pub fn run(s: &mut Session) -> bool {
    let mut p = Part::new(
        "C17",
        "direct",
        "case = AsyncifyPool::new(limit 1-8, idle timeout 5-50 ms) x 1-6 threads calling dispatch() at a common start line x 1-3 phases of 1-14 jobs \
         (duration 0-20 ms; body: value / panic caught in the job / panic killing the worker; policy for a handed-back closure: retry / run on the \
         dispatcher / drop) x gap after each phase (sleep 0-110 ms straddling the idle timeout, or wait until no pool worker thread exists any more, \
         followed by a probe dispatch that must be accepted). Classes: single-dispatch (1 thread) and concurrent-dispatch (>=2). \
         Non-trivial = some dispatch was refused (more jobs in flight than the limit) or a job ran after all workers had retired; distinct = distinct serialised case.",
    );
    // a process abort (double panic in a Drop, poisoned lock) while a case runs is a verdict about that case
    p.crash_guard = true;
    p.quick_cases = 400;
    p.thorough_cases = 9000;
    p.replay_repeats = 30;
    p.max_shrink_iters = 16;
    p.assumptions = vec![
        "threads created by the pool inherit the comm of the dispatching harness thread (Linux clone semantics), which is how live pool workers are counted",
        "flume's rendezvous channel is trusted",
    ];
    p.regressions = vec![
        (
            "limit1-four-threads-at-the-start-line",
            DirectCase { limit: 1, idle_ms: 20, threads: 4, phases: vec![Phase { jobs: burst(8, 4, 4000), gap: Gap::Sleep(0) }], hogs: 0 },
        ),
        (
            // known finding: one dispatching thread, limit 2, short job then long ones
            "single-dispatcher-limit2-short-then-long",
            DirectCase {
                limit: 2,
                idle_ms: 5,
                threads: 1,
                phases: (0..3)
                    .map(|_| Phase {
                        jobs: [100u16, 20000, 20000, 20000, 20000].iter().map(|d| DJob { thread: 0, dur_us: *d, body: Body::Value, on_full: OnFull::DropIt }).collect(),
                        gap: Gap::Retire,
                    })
                    .collect(),
                hogs: 0,
            },
        ),
        (
            // known finding: idle timeout 1 ms, every dispatch has to spawn a worker
            "idle-1ms-every-dispatch-spawns",
            DirectCase {
                limit: 1,
                idle_ms: 1,
                threads: 1,
                phases: (0..40).map(|_| Phase { jobs: vec![DJob { thread: 0, dur_us: 0, body: Body::Value, on_full: OnFull::Retry }], gap: Gap::Sleep(3) }).collect(),
                hogs: 40,
            },
        ),
        (
            "single-dispatcher-burst-retire-then-job",
            DirectCase {
                limit: 2,
                idle_ms: 10,
                threads: 1,
                phases: vec![Phase { jobs: burst(6, 1, 1500), gap: Gap::Retire }, Phase { jobs: burst(3, 1, 0), gap: Gap::Sleep(0) }],
                hogs: 0,
            },
        ),
        (
            "raw-panic-then-retire-then-job",
            DirectCase {
                limit: 1,
                idle_ms: 5,
                threads: 1,
                phases: vec![
                    Phase { jobs: vec![DJob { thread: 0, dur_us: 100, body: Body::PanicRaw, on_full: OnFull::Retry }], gap: Gap::Retire },
                    Phase { jobs: burst(2, 1, 100), gap: Gap::Sleep(0) },
                ],
                hogs: 0,
            },
        ),
    ];
    if s.args.shard.0 != 0 {
        // the fixed cases run once per check, in shard 0
        p.regressions.clear();
    }
    s.run_part(p, case_strategy(), |c| crate::with_breaker(c, run_direct))
}
