//! Synchronous reference interpreter: the OS's own calls (std::fs for open/directory utilities,
//! libc pread/pwrite/preadv/pwritev/read/write/readv/writev/ftruncate/fsync for I/O) plus the
//! documented buffer model of `bufs.rs`.
use std::{
    fs,
    io,
    os::{
        fd::{AsRawFd, FromRawFd, OwnedFd, RawFd},
        unix::fs::{MetadataExt, OpenOptionsExt, PermissionsExt},
    },
    path::Path,
};

use vcore::mono_ix;

use crate::{bufs::*, prog::*};

fn cvt(r: isize) -> io::Result<usize> {
    if r < 0 {
        Err(io::Error::last_os_error())
    } else {
        Ok(r as usize)
    }
}

fn sys_read(fd: RawFd, buf: &mut [u8], pos: Option<u64>) -> io::Result<usize> {
    cvt(unsafe {
        match pos {
            Some(p) => libc::pread64(fd, buf.as_mut_ptr().cast(), buf.len(), p as i64),
            None => libc::read(fd, buf.as_mut_ptr().cast(), buf.len()),
        }
    })
}

fn sys_write(fd: RawFd, buf: &[u8], pos: Option<u64>) -> io::Result<usize> {
    cvt(unsafe {
        match pos {
            Some(p) => libc::pwrite64(fd, buf.as_ptr().cast(), buf.len(), p as i64),
            None => libc::write(fd, buf.as_ptr().cast(), buf.len()),
        }
    })
}

fn sys_readv(fd: RawFd, bufs: &mut [Vec<u8>], pos: Option<u64>) -> io::Result<usize> {
    let iov: Vec<libc::iovec> = bufs.iter_mut().map(|b| libc::iovec { iov_base: b.as_mut_ptr().cast(), iov_len: b.len() }).collect();
    cvt(unsafe {
        match pos {
            Some(p) => libc::preadv64(fd, iov.as_ptr(), iov.len() as i32, p as i64),
            None => libc::readv(fd, iov.as_ptr(), iov.len() as i32),
        }
    })
}

fn sys_writev(fd: RawFd, bufs: &[Vec<u8>], pos: Option<u64>) -> io::Result<usize> {
    let iov: Vec<libc::iovec> = bufs.iter().map(|b| libc::iovec { iov_base: b.as_ptr() as *mut _, iov_len: b.len() }).collect();
    cvt(unsafe {
        match pos {
            Some(p) => libc::pwritev64(fd, iov.as_ptr(), iov.len() as i32, p as i64),
            None => libc::writev(fd, iov.as_ptr(), iov.len() as i32),
        }
    })
}

pub fn meta_obs(m: &fs::Metadata) -> MetaObs {
    let ft = m.file_type();
    MetaObs { ftype: ftype_name(&ft).into(), len: if ft.is_dir() { 0 } else { m.len() }, mode: m.mode() & 0o7777, nlink: m.nlink() }
}

/// Facts the reference run learns about the program (used for labels / the non-triviality rule).
#[derive(Debug, Default)]
pub struct Facts {
    pub labels: Vec<String>,
    pub read_hit: bool,
    pub vectored_span: bool,
    pub beyond_eof: bool,
}

struct RefPipe {
    rx: Option<OwnedFd>,
    tx: Option<OwnedFd>,
    book: PipeBook,
}

fn read_single(fd: RawFd, spec: &BufSpec, pos: Option<u64>) -> (Res, BufObs, usize) {
    let g = geom(spec);
    let mut scratch = vec![0u8; g.rlen];
    match sys_read(fd, &mut scratch, pos) {
        Ok(n) => (Ok(n as u64), after_read(spec, &g, &scratch[..n]), n),
        Err(e) => (Err(conv_err(&e)), g.root.clone(), 0),
    }
}

fn read_vectored(fd: RawFd, spec: &VSpec, pos: Option<u64>) -> (Res, Vec<BufObs>, usize) {
    let before: Vec<BufObs> = mk_members(spec).iter().map(obs_vec).collect();
    let mut scratch: Vec<Vec<u8>> = before.iter().map(|m| vec![0u8; m.cap.len()]).collect();
    match sys_readv(fd, &mut scratch, pos) {
        Ok(n) => {
            let flat: Vec<u8> = scratch.concat();
            (Ok(n as u64), after_readv(&before, &flat[..n]), n)
        }
        Err(e) => (Err(conv_err(&e)), before, 0),
    }
}

fn write_vectored(fd: RawFd, spec: &VSpec, pos: Option<u64>) -> (Res, Vec<BufObs>) {
    let members = mk_members(spec);
    let before: Vec<BufObs> = members.iter().map(obs_vec).collect();
    (conv(sys_writev(fd, &members, pos)), before)
}

pub fn vtotal(spec: &VSpec) -> usize {
    spec.member_specs().iter().map(|m| m.0).sum()
}

pub fn run_ref(prog: &Prog, root: &Path) -> (Vec<Obs>, Facts) {
    let mut files: Vec<fs::File> = vec![];
    let mut pipes: Vec<RefPipe> = vec![];
    let mut out = vec![];
    let mut facts = Facts::default();
    let p = |i: u8| root.join(PATHS[i as usize % PATHS.len()]);
    for step in &prog.steps {
        let obs = match step {
            Step::Open { path, opts } => {
                if files.len() >= MAX_FILES {
                    Obs::Skip("file table full")
                } else {
                    let r = match opts.via {
                        Via::FileOpen => fs::File::open(p(*path)),
                        Via::FileCreate => fs::File::create(p(*path)),
                        Via::Options => {
                            let mut o = fs::OpenOptions::new();
                            o.read(opts.read).write(opts.write).create(opts.create).truncate(opts.truncate).create_new(opts.create_new);
                            if opts.custom != Custom::None {
                                o.custom_flags(opts.custom.flags());
                            }
                            if let Some(m) = opts.mode {
                                o.mode(m as u32);
                            }
                            o.open(p(*path))
                        }
                    };
                    match r {
                        Ok(f) => {
                            files.push(f);
                            Obs::res(Ok(0))
                        }
                        Err(e) => {
                            facts.labels.push(format!("open-err:{:?}", e.kind()));
                            Obs::res(Err(conv_err(&e)))
                        }
                    }
                }
            }
            Step::Close { h } => {
                if files.is_empty() {
                    Obs::Skip("no open file")
                } else {
                    drop(files.remove(mono_ix(*h, files.len())));
                    Obs::res(Ok(0))
                }
            }
            Step::ReadAt { h, buf, pos } => {
                if files.is_empty() {
                    Obs::Skip("no open file")
                } else {
                    let f = &files[mono_ix(*h, files.len())];
                    let size = f.metadata().map(|m| m.len()).unwrap_or(0);
                    let (res, b, n) = read_single(f.as_raw_fd(), buf, Some(pos.value()));
                    if n > 0 {
                        facts.read_hit = true;
                    }
                    if res.is_ok() && pos.value() >= size && geom(buf).rlen > 0 {
                        facts.beyond_eof = true;
                        facts.labels.push("read-at-or-beyond-eof".into());
                    }
                    Obs::Op { res, bufs: vec![b], meta: None, data: None }
                }
            }
            Step::ReadVAt { h, bufs, pos } => {
                if files.is_empty() {
                    Obs::Skip("no open file")
                } else {
                    let f = &files[mono_ix(*h, files.len())];
                    let (res, b, n) = read_vectored(f.as_raw_fd(), bufs, Some(pos.value()));
                    if n > 0 {
                        facts.read_hit = true;
                    }
                    let first = b.first().map(|m| m.cap.len()).unwrap_or(0);
                    if n > first && b.iter().filter(|m| !m.cap.is_empty()).count() >= 2 {
                        facts.vectored_span = true;
                        facts.labels.push("readv-spans-members".into());
                    }
                    // the same call with iovecs over the initialised parts only (file reads are idempotent)
                    let before: Vec<BufObs> = mk_members(bufs).iter().map(obs_vec).collect();
                    let mut scratch: Vec<Vec<u8>> = before.iter().map(|m| vec![0u8; m.len]).collect();
                    let (alt_res, alt_bufs) = match sys_readv(f.as_raw_fd(), &mut scratch, Some(pos.value())) {
                        Ok(k) => {
                            let flat: Vec<u8> = scratch.concat();
                            (Ok(k as u64), after_readv_init_only(&before, &flat[..k]).1)
                        }
                        Err(e) => (Err(conv_err(&e)), before),
                    };
                    Obs::OpAlt { main: Box::new(Obs::Op { res, bufs: b, meta: None, data: None }), alt_res, alt_bufs }
                }
            }
            Step::WriteAt { h, buf, pos } => {
                if files.is_empty() {
                    Obs::Skip("no open file")
                } else {
                    let f = &files[mono_ix(*h, files.len())];
                    let size = f.metadata().map(|m| m.len()).unwrap_or(0);
                    let g = geom(buf);
                    let res = conv(sys_write(f.as_raw_fd(), g.init_bytes(), Some(pos.value())));
                    if res.is_ok() && pos.value() > size && g.vis > 0 {
                        facts.beyond_eof = true;
                        facts.labels.push("write-beyond-eof".into());
                    }
                    Obs::Op { res, bufs: vec![g.root.clone()], meta: None, data: None }
                }
            }
            Step::WriteVAt { h, bufs, pos } => {
                if files.is_empty() {
                    Obs::Skip("no open file")
                } else {
                    let f = &files[mono_ix(*h, files.len())];
                    let (res, b) = write_vectored(f.as_raw_fd(), bufs, Some(pos.value()));
                    if res.is_ok() && bufs.member_specs().iter().filter(|m| m.0 > 0).count() >= 2 {
                        facts.vectored_span = true;
                        facts.labels.push("writev-spans-members".into());
                    }
                    Obs::Op { res, bufs: b, meta: None, data: None }
                }
            }
            Step::SetLen { h, size } => {
                if files.is_empty() {
                    Obs::Skip("no open file")
                } else {
                    let f = &files[mono_ix(*h, files.len())];
                    let r = unsafe { libc::ftruncate64(f.as_raw_fd(), size.value() as i64) };
                    Obs::res(if r < 0 { Err(conv_err(&io::Error::last_os_error())) } else { Ok(0) })
                }
            }
            Step::Sync { h, data } => {
                if files.is_empty() {
                    Obs::Skip("no open file")
                } else {
                    let f = &files[mono_ix(*h, files.len())];
                    let r = unsafe {
                        if *data {
                            libc::fdatasync(f.as_raw_fd())
                        } else {
                            libc::fsync(f.as_raw_fd())
                        }
                    };
                    Obs::res(if r < 0 { Err(conv_err(&io::Error::last_os_error())) } else { Ok(0) })
                }
            }
            Step::Meta { h } => {
                if files.is_empty() {
                    Obs::Skip("no open file")
                } else {
                    let f = &files[mono_ix(*h, files.len())];
                    match f.metadata() {
                        Ok(m) => Obs::Op { res: Ok(0), bufs: vec![], meta: Some(meta_obs(&m)), data: None },
                        Err(e) => Obs::res(Err(conv_err(&e))),
                    }
                }
            }
            Step::SetPerm { h, mode } => {
                if files.is_empty() {
                    Obs::Skip("no open file")
                } else {
                    let f = &files[mono_ix(*h, files.len())];
                    Obs::res(conv_unit(f.set_permissions(fs::Permissions::from_mode(*mode as u32))))
                }
            }
            Step::PathMeta { path, follow } => {
                let r = if *follow { fs::metadata(p(*path)) } else { fs::symlink_metadata(p(*path)) };
                match r {
                    Ok(m) => Obs::Op { res: Ok(0), bufs: vec![], meta: Some(meta_obs(&m)), data: None },
                    Err(e) => Obs::res(Err(conv_err(&e))),
                }
            }
            Step::PathSetPerm { path, mode } => Obs::res(conv_unit(fs::set_permissions(p(*path), fs::Permissions::from_mode(*mode as u32)))),
            Step::CreateDir { path } => Obs::res(conv_unit(fs::create_dir(p(*path)))),
            Step::CreateDirAll { path } => Obs::res(conv_unit(fs::create_dir_all(p(*path)))),
            Step::RemoveFile { path } => Obs::res(conv_unit(fs::remove_file(p(*path)))),
            Step::RemoveDir { path } => Obs::res(conv_unit(fs::remove_dir(p(*path)))),
            Step::Rename { from, to } => Obs::res(conv_unit(fs::rename(p(*from), p(*to)))),
            Step::HardLink { from, to } => Obs::res(conv_unit(fs::hard_link(p(*from), p(*to)))),
            Step::Symlink { target, link } => {
                Obs::res(conv_unit(std::os::unix::fs::symlink(TARGETS[*target as usize % TARGETS.len()], p(*link))))
            }
            Step::FsRead { path } => match fs::read(p(*path)) {
                Ok(d) => {
                    if !d.is_empty() {
                        facts.read_hit = true;
                    }
                    Obs::Op { res: Ok(d.len() as u64), bufs: vec![], meta: None, data: Some(d) }
                }
                Err(e) => Obs::res(Err(conv_err(&e))),
            },
            Step::FsWrite { path, buf } => {
                let g = geom(buf);
                let res = conv_unit(fs::write(p(*path), g.init_bytes()));
                Obs::Op { res, bufs: vec![g.root.clone()], meta: None, data: None }
            }
            Step::PipeNew => {
                if pipes.len() >= MAX_PIPES {
                    Obs::Skip("pipe table full")
                } else {
                    let mut fds = [0 as RawFd; 2];
                    let r = unsafe { libc::pipe2(fds.as_mut_ptr(), libc::O_CLOEXEC | libc::O_NONBLOCK) };
                    if r < 0 {
                        Obs::res(Err(conv_err(&io::Error::last_os_error())))
                    } else {
                        pipes.push(RefPipe {
                            rx: Some(unsafe { OwnedFd::from_raw_fd(fds[0]) }),
                            tx: Some(unsafe { OwnedFd::from_raw_fd(fds[1]) }),
                            book: PipeBook::default(),
                        });
                        Obs::res(Ok(0))
                    }
                }
            }
            Step::PipeWrite { p: pi, buf } => match pick_pipe(&mut pipes, *pi) {
                None => Obs::Skip("no pipe"),
                Some(pp) => {
                    let g = geom(buf);
                    match &pp.tx {
                        None => Obs::Skip("sender closed"),
                        Some(_) if pp.rx.is_some() && !pp.book.can_write(g.vis) => Obs::Skip("pipe write could block"),
                        Some(tx) => {
                            let r = sys_write(tx.as_raw_fd(), g.init_bytes(), None);
                            if let Ok(n) = r {
                                pp.book.wrote(n);
                            }
                            Obs::Op { res: conv(r), bufs: vec![g.root.clone()], meta: None, data: None }
                        }
                    }
                }
            },
            Step::PipeWriteV { p: pi, bufs } => match pick_pipe(&mut pipes, *pi) {
                None => Obs::Skip("no pipe"),
                Some(pp) => match &pp.tx {
                    None => Obs::Skip("sender closed"),
                    Some(_) if pp.rx.is_some() && !pp.book.can_write(vtotal(bufs)) => Obs::Skip("pipe write could block"),
                    Some(tx) => {
                        let (res, b) = write_vectored(tx.as_raw_fd(), bufs, None);
                        if let Ok(n) = res {
                            pp.book.wrote(n as usize);
                            if bufs.member_specs().iter().filter(|m| m.0 > 0).count() >= 2 {
                                facts.vectored_span = true;
                                facts.labels.push("pipe-writev-spans-members".into());
                            }
                        }
                        Obs::Op { res, bufs: b, meta: None, data: None }
                    }
                },
            },
            Step::PipeRead { p: pi, buf } => match pick_pipe(&mut pipes, *pi) {
                None => Obs::Skip("no pipe"),
                Some(pp) => match &pp.rx {
                    None => Obs::Skip("receiver closed"),
                    Some(_) if pp.tx.is_some() && pp.book.bytes == 0 => Obs::Skip("pipe read would block"),
                    Some(rx) => {
                        let (res, b, n) = read_single(rx.as_raw_fd(), buf, None);
                        pp.book.read(n);
                        if n > 0 {
                            facts.read_hit = true;
                            facts.labels.push("pipe-read-hit".into());
                        }
                        Obs::Op { res, bufs: vec![b], meta: None, data: None }
                    }
                },
            },
            Step::PipeReadV { p: pi, bufs } => match pick_pipe(&mut pipes, *pi) {
                None => Obs::Skip("no pipe"),
                Some(pp) => match &pp.rx {
                    None => Obs::Skip("receiver closed"),
                    Some(_) if pp.tx.is_some() && pp.book.bytes == 0 => Obs::Skip("pipe read would block"),
                    Some(rx) => {
                        let (res, b, n) = read_vectored(rx.as_raw_fd(), bufs, None);
                        pp.book.read(n);
                        if n > 0 {
                            facts.read_hit = true;
                        }
                        let first = b.first().map(|m| m.cap.len()).unwrap_or(0);
                        if n > first {
                            facts.vectored_span = true;
                            facts.labels.push("pipe-readv-spans-members".into());
                        }
                        Obs::Op { res, bufs: b, meta: None, data: None }
                    }
                },
            },
            Step::PipeCloseTx { p: pi } => match pick_pipe(&mut pipes, *pi) {
                None => Obs::Skip("no pipe"),
                Some(pp) => match pp.tx.take() {
                    None => Obs::Skip("sender closed"),
                    Some(fd) => {
                        drop(fd);
                        Obs::res(Ok(0))
                    }
                },
            },
            Step::PipeCloseRx { p: pi } => match pick_pipe(&mut pipes, *pi) {
                None => Obs::Skip("no pipe"),
                Some(pp) => match pp.rx.take() {
                    None => Obs::Skip("receiver closed"),
                    Some(fd) => {
                        drop(fd);
                        Obs::res(Ok(0))
                    }
                },
            },
        };
        if let Obs::Op { res: Err(e), .. } = obs.main() {
            facts.labels.push(format!("err:{}:{}", step.name(), e.kind));
        }
        out.push(obs);
    }
    (out, facts)
}

fn pick_pipe(pipes: &mut [RefPipe], raw: u16) -> Option<&mut RefPipe> {
    if pipes.is_empty() {
        None
    } else {
        let i = mono_ix(raw, pipes.len());
        Some(&mut pipes[i])
    }
}
