//! Fixed TLS material from /verif/fixtures/tls (P-256, SAN localhost, 2020–2120); nothing is
//! generated at run time.  Connectors/acceptors for both back-ends are built once per process.

use std::{path::Path, sync::Arc, sync::OnceLock};

use compio_tls::{TlsAcceptor, TlsConnector};
use rustls::pki_types::{pem::PemObject, CertificateDer, PrivateKeyDer};
use serde::{Deserialize, Serialize};

#[derive(Debug, Clone, Copy, Serialize, Deserialize, PartialEq, Eq)]
pub enum Backend {
    Native,
    Rustls,
}

impl Backend {
    pub fn name(self) -> &'static str {
        match self {
            Backend::Native => "native",
            Backend::Rustls => "rustls",
        }
    }
}

pub struct Material {
    /// [tls13, tls12]
    pub native_conn: [TlsConnector; 2],
    pub native_acc: [TlsAcceptor; 2],
    pub rustls_conn: [TlsConnector; 2],
    pub rustls_acc: [TlsAcceptor; 2],
}

static MATERIAL: OnceLock<Material> = OnceLock::new();

fn read(dir: &Path, name: &str) -> Vec<u8> {
    let p = dir.join("fixtures").join("tls").join(name);
    match std::fs::read(&p) {
        Ok(b) => b,
        Err(e) => {
            eprintln!("c15: cannot read fixture {}: {e}", p.display());
            std::process::exit(2);
        }
    }
}

pub fn material(verif_dir: &Path) -> &'static Material {
    MATERIAL.get_or_init(|| build(verif_dir))
}

fn build(dir: &Path) -> Material {
    let ca = read(dir, "ca.cert.pem");
    let leaf = read(dir, "leaf.cert.pem");
    let key = read(dir, "leaf.key.pem");

    // ---- native-tls (OpenSSL): identity straight from the PEM pair, CA via add_root_certificate
    let mk_native_acc = |tls12: bool| {
        let id = native_tls::Identity::from_pkcs8(&leaf, &key).expect("native identity from fixture PEMs");
        let mut b = native_tls::TlsAcceptor::builder(id);
        if tls12 {
            b.max_protocol_version(Some(native_tls::Protocol::Tlsv12));
        }
        TlsAcceptor::from(b.build().expect("native acceptor"))
    };
    let mk_native_conn = |tls12: bool| {
        let mut b = native_tls::TlsConnector::builder();
        b.add_root_certificate(native_tls::Certificate::from_pem(&ca).expect("fixture CA"));
        if tls12 {
            b.max_protocol_version(Some(native_tls::Protocol::Tlsv12));
        }
        TlsConnector::from(b.build().expect("native connector"))
    };

    // ---- rustls (ring): custom root store holding only the fixture CA
    let provider = Arc::new(rustls::crypto::ring::default_provider());
    let versions = |tls12: bool| -> &'static [&'static rustls::SupportedProtocolVersion] {
        if tls12 {
            &[&rustls::version::TLS12]
        } else {
            &[&rustls::version::TLS13]
        }
    };
    let leaf_der = CertificateDer::from_pem_slice(&leaf).expect("leaf pem");
    let ca_der = CertificateDer::from_pem_slice(&ca).expect("ca pem");
    let mk_rustls_acc = |tls12: bool| {
        let cfg = rustls::ServerConfig::builder_with_provider(provider.clone())
            .with_protocol_versions(versions(tls12))
            .expect("versions")
            .with_no_client_auth()
            .with_single_cert(vec![leaf_der.clone()], PrivateKeyDer::from_pem_slice(&key).expect("key pem"))
            .expect("rustls server config");
        TlsAcceptor::from(Arc::new(cfg))
    };
    let mk_rustls_conn = |tls12: bool| {
        let mut store = rustls::RootCertStore::empty();
        store.add(ca_der.clone()).expect("add fixture CA");
        let cfg = rustls::ClientConfig::builder_with_provider(provider.clone())
            .with_protocol_versions(versions(tls12))
            .expect("versions")
            .with_root_certificates(store)
            .with_no_client_auth();
        TlsConnector::from(Arc::new(cfg))
    };
    Material {
        native_conn: [mk_native_conn(false), mk_native_conn(true)],
        native_acc: [mk_native_acc(false), mk_native_acc(true)],
        rustls_conn: [mk_rustls_conn(false), mk_rustls_conn(true)],
        rustls_acc: [mk_rustls_acc(false), mk_rustls_acc(true)],
    }
}

impl Material {
    pub fn connector(&self, b: Backend, tls12: bool) -> TlsConnector {
        match b {
            Backend::Native => self.native_conn[tls12 as usize].clone(),
            Backend::Rustls => self.rustls_conn[tls12 as usize].clone(),
        }
    }

    pub fn acceptor(&self, b: Backend, tls12: bool) -> TlsAcceptor {
        match b {
            Backend::Native => self.native_acc[tls12 as usize].clone(),
            Backend::Rustls => self.rustls_acc[tls12 as usize].clone(),
        }
    }
}
