//! netlab — helpers shared by the ws-net checks (C14, C07, C06a): runtime construction on a chosen
//! driver, a harness-owned event loop with a watchdog, position-coded payloads, join-handle results.
use std::{
    cell::RefCell,
    future::Future,
    pin::Pin,
    rc::Rc,
    task::{Context, Poll, Waker},
    time::{Duration, Instant},
};

use compio_driver::{DriverType, ProactorBuilder};
use compio_runtime::{JoinError, JoinHandle, Runtime, RuntimeBuilder};
use serde::{Deserialize, Serialize};

#[derive(Debug, Clone, Copy, PartialEq, Eq, Serialize, Deserialize)]
pub enum Drv {
    IoUring,
    Poll,
}

impl Drv {
    pub fn name(self) -> &'static str {
        match self {
            Drv::IoUring => "iour",
            Drv::Poll => "poll",
        }
    }
}

#[derive(Debug, Clone, Copy)]
pub struct RtCfg {
    pub drv: Drv,
    pub capacity: u32,
    pub pool_size: u16,
    pub pool_len: usize,
    pub event_interval: usize,
}

impl RtCfg {
    pub fn new(drv: Drv) -> Self {
        RtCfg { drv, capacity: 256, pool_size: 8, pool_len: 4096, event_interval: 61 }
    }
}

pub fn proactor_builder(cfg: &RtCfg) -> ProactorBuilder {
    let mut b = ProactorBuilder::new();
    b.driver_type(match cfg.drv {
        Drv::IoUring => DriverType::IoUring,
        Drv::Poll => DriverType::Poll,
    })
    .capacity(cfg.capacity)
    .buffer_pool_size(std::num::NonZero::new(cfg.pool_size.max(1)).unwrap())
    .buffer_pool_buffer_len(cfg.pool_len);
    b
}

pub fn build_rt(cfg: &RtCfg) -> std::io::Result<Runtime> {
    let mut rb = RuntimeBuilder::new();
    rb.with_proactor(proactor_builder(cfg)).event_interval(cfg.event_interval);
    rb.build()
}

/// Step the runtime (harness-owned event loop) until `done()` or the watchdog expires.
/// Returns true iff `done()` became true.  The watchdog is *not* a correctness signal.
pub fn drive(rt: &Runtime, mut done: impl FnMut() -> bool, watchdog: Duration) -> bool {
    let start = Instant::now();
    rt.enter(|| loop {
        let more = rt.run();
        if done() {
            return true;
        }
        if start.elapsed() > watchdog {
            return false;
        }
        rt.poll_with(Some(if more { Duration::ZERO } else { Duration::from_millis(5) }));
    })
}

/// A fixed number of loop turns without blocking longer than `wait` per turn.
pub fn turns(rt: &Runtime, n: usize, wait: Duration) {
    rt.enter(|| {
        for _ in 0..n {
            let more = rt.run();
            rt.poll_with(Some(if more { Duration::ZERO } else { wait }));
        }
        rt.run();
    })
}

/// Only the driver half of a loop turn: completions are recorded and wakers fire, but no task runs.
/// What follows happens in the window "completed in the driver, not yet seen by its future".
pub fn poll_only(rt: &Runtime, wait: Duration) {
    rt.enter(|| rt.poll_with(Some(wait)))
}

pub fn poll_once<F: Future + ?Sized>(f: Pin<&mut F>) -> Poll<F::Output> {
    let mut cx = Context::from_waker(Waker::noop());
    f.poll(&mut cx)
}

/// Result of a finished task: its value, or the panic message.
pub fn join_now<T>(h: &mut JoinHandle<T>) -> Option<Result<T, String>> {
    if !h.is_finished() {
        return None;
    }
    match poll_once(Pin::new(h)) {
        Poll::Ready(Ok(v)) => Some(Ok(v)),
        Poll::Ready(Err(JoinError::Cancelled)) => Some(Err("task cancelled".into())),
        Poll::Ready(Err(JoinError::Panicked(p))) => {
            let msg = if let Some(s) = p.downcast_ref::<&str>() {
                s.to_string()
            } else if let Some(s) = p.downcast_ref::<String>() {
                s.clone()
            } else {
                "<non-string panic>".into()
            };
            Some(Err(format!("task panicked: {msg}")))
        }
        Poll::Pending => None,
    }
}

/// Raise the soft descriptor limit to the hard limit: on a heavily loaded machine descriptors of
/// finished cases are released with a delay by worker threads, long runs must not hit EMFILE.
pub fn raise_nofile() {
    unsafe {
        let mut r: libc::rlimit = std::mem::zeroed();
        if libc::getrlimit(libc::RLIMIT_NOFILE, &mut r) == 0 && r.rlim_cur < r.rlim_max {
            r.rlim_cur = r.rlim_max.min(65536);
            libc::setrlimit(libc::RLIMIT_NOFILE, &r);
        }
    }
}

pub fn strip_digits(s: &str) -> String {
    let mut out = String::new();
    let mut last = false;
    for c in s.chars() {
        if c.is_ascii_digit() {
            if !last {
                out.push('#');
            }
            last = true;
        } else {
            out.push(c);
            last = false;
        }
    }
    out.chars().take(100).collect()
}

// ------------------------------------------------------------------------------------------------
// position-coded payloads

/// Byte at position `pos` of stream `seed`.  A shift by any small amount changes almost every byte.
#[inline]
pub fn pat(seed: u64, pos: u64) -> u8 {
    let x = pos.wrapping_add(seed.wrapping_mul(0x9E37_79B9_7F4A_7C15)).wrapping_mul(0xD6E8_FEB8_6659_FD93);
    ((x >> 32) ^ (x >> 11) ^ pos) as u8
}

pub fn fill(seed: u64, start: u64, n: usize) -> Vec<u8> {
    (0..n as u64).map(|i| pat(seed, start + i)).collect()
}

/// First index at which `data` differs from the stream `seed` starting at `start`.
pub fn mismatch(seed: u64, start: u64, data: &[u8]) -> Option<usize> {
    data.iter().enumerate().position(|(i, b)| *b != pat(seed, start + i as u64))
}

// ------------------------------------------------------------------------------------------------
// violation log shared between the tasks of one case

#[derive(Default)]
pub struct Log {
    pub violation: Option<(String, String)>,
    pub labels: Vec<String>,
    pub notes: Vec<String>,
}

#[derive(Clone, Default)]
pub struct SharedLog(pub Rc<RefCell<Log>>);

impl SharedLog {
    pub fn new() -> Self {
        Self::default()
    }

    /// Record the first violation only.
    pub fn violate(&self, sig: impl Into<String>, detail: impl Into<String>) {
        let mut l = self.0.borrow_mut();
        if l.violation.is_none() {
            l.violation = Some((sig.into(), detail.into()));
        }
    }

    pub fn failed(&self) -> bool {
        self.0.borrow().violation.is_some()
    }

    pub fn label(&self, s: impl Into<String>) {
        let s = s.into();
        let mut l = self.0.borrow_mut();
        if !l.labels.contains(&s) {
            l.labels.push(s);
        }
    }

    pub fn note(&self, s: impl Into<String>) {
        self.0.borrow_mut().notes.push(s.into());
    }

    pub fn take(&self) -> Log {
        std::mem::take(&mut *self.0.borrow_mut())
    }
}

pub fn errno_name(e: &std::io::Error) -> String {
    match e.raw_os_error() {
        Some(c) => format!("os{c}"),
        None => format!("{:?}", e.kind()),
    }
}
