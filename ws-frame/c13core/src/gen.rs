//! proptest strategies for the C13 case types (all by construction, nothing filtered).
use vcore::proptest::{collection::vec, prelude::*, sample::select};

use crate::{
    cmsg::{BufKind, CmsgCase, Data, Msg},
    frames::{ref_encode, CodecKind, Doc, FrameCase, Framer, HostileCase, Items},
    mock::Frag,
};

/// bytes that make delimiter collisions and partial delimiters likely
fn hot_byte() -> impl Strategy<Value = u8> + Clone {
    prop_oneof![
        3 => select(vec![b'\n', 0u8, 0xE2, 0x84, 0x9D, b'a', b'b', 0xFF, b'"', b'{']),
        2 => any::<u8>(),
    ]
}

pub fn framer() -> impl Strategy<Value = Framer> + Clone {
    prop_oneof![
        8 => (1u8..=8, any::<bool>()).prop_map(|(width, big_endian)| Framer::Len { width, big_endian }),
        2 => Just(Framer::CharNl),
        2 => Just(Framer::CharR),
        1 => Just(Framer::CharNul),
        5 => vec(select(vec![b'a', b'b', b'\n', 0u8, 0xE2, 0x84, b'\r']), 1..=4).prop_map(|delim| Framer::Any { delim }),
        2 => Just(Framer::Noop),
    ]
}

pub fn frag() -> impl Strategy<Value = Frag> + Clone {
    (prop_oneof![4 => Just(1u16), 4 => 2u16..=4, 3 => 5u16..=16, 2 => 17u16..=400], prop_oneof![5 => Just(false), 1 => Just(true)]).prop_map(|(n, pend)| Frag { n, pend })
}

fn text() -> impl Strategy<Value = String> + Clone {
    vec(select(vec!['a', 'z', '0', ' ', '"', '\\', '\n', '\0', 'é', 'ℝ', '😀', '/', '{']), 0..=8).prop_map(|v| v.into_iter().collect())
}

fn doc_leaf() -> impl Strategy<Value = Doc> + Clone {
    (any::<u32>(), text(), prop_oneof![Just(0i64), Just(i64::MIN), Just(i64::MAX), any::<i64>()], any::<bool>(), vec(text(), 0..=3))
        .prop_map(|(id, name, n, flag, tags)| Doc { id, name, n, flag, tags, child: None })
}

pub fn doc() -> impl Strategy<Value = Doc> + Clone {
    (doc_leaf(), prop_oneof![3 => Just(None), 1 => doc_leaf().prop_map(Some)]).prop_map(|(mut d, c)| {
        d.child = c.map(Box::new);
        d
    })
}

fn payload() -> impl Strategy<Value = Vec<u8>> + Clone {
    prop_oneof![
        1 => Just(vec![]),
        6 => vec(hot_byte(), 0..=12),
        3 => vec(hot_byte(), 13..=200),
        1 => vec(any::<u8>(), 201..=300),
    ]
}

pub fn frame_case() -> impl Strategy<Value = FrameCase> + Clone {
    (
        framer(),
        prop_oneof![
            3 => vec(payload(), 0..=8).prop_map(Items::Bytes),
            2 => (any::<bool>(), vec(doc(), 0..=6)).prop_map(|(pretty, docs)| Items::Json { pretty, docs }),
        ],
        vec(any::<bool>(), 0..=4),
        any::<bool>(),
        prop_oneof![2 => Just(vec![]), 1 => vec(frag(), 1..=4)],
        prop_oneof![3 => Just(false), 1 => Just(true)],
        vec(frag(), 0..=8),
        prop_oneof![2 => Just((0u16, 0u16)), 1 => (0u16..=64, 0u16..=64)],
    )
        .prop_map(|(framer, items, send, end_close, wsched, lazy, rsched, (rcap, wcap))| FrameCase { framer, items, send, end_close, wsched, lazy, rsched, rcap, wcap, strict: false })
}

/// building blocks of a hostile stream; assembled for the case's framer
#[derive(Debug, Clone)]
enum Chunk {
    Random(Vec<u8>),
    /// a well-formed frame around this payload
    Valid(Vec<u8>),
    /// a well-formed frame around a JSON document
    ValidDoc(Doc),
    /// a length field with a chosen value (only the field, no payload) / a delimiter
    Marker(LenPick),
    /// the first `k` bytes of a marker
    PartialMarker(u8),
}

#[derive(Debug, Clone, Copy)]
enum LenPick {
    Small(u8),
    /// all ones in the field: 2^(8w)-1
    Max,
    /// 2^(8w) - 1 - k
    NearMax(u8),
    /// top bit only
    Half,
}

fn chunk() -> impl Strategy<Value = Chunk> + Clone {
    prop_oneof![
        3 => vec(hot_byte(), 0..=10).prop_map(Chunk::Random),
        4 => vec(hot_byte(), 0..=10).prop_map(Chunk::Valid),
        2 => doc_leaf().prop_map(Chunk::ValidDoc),
        3 => prop_oneof![
            4 => (0u8..=12).prop_map(LenPick::Small),
            1 => Just(LenPick::Max),
            1 => (0u8..=16).prop_map(LenPick::NearMax),
            1 => Just(LenPick::Half),
        ].prop_map(Chunk::Marker),
        1 => (1u8..=7).prop_map(Chunk::PartialMarker),
    ]
}

fn assemble(framer: &Framer, chunks: &[Chunk]) -> Vec<u8> {
    let mut out = vec![];
    let field = |v: u64, out: &mut Vec<u8>| {
        if let Framer::Len { big_endian, .. } = framer {
            let w = framer.width().unwrap();
            if *big_endian {
                out.extend_from_slice(&v.to_be_bytes()[8 - w..]);
            } else {
                out.extend_from_slice(&v.to_le_bytes()[..w]);
            }
        }
    };
    for c in chunks {
        match c {
            Chunk::Random(b) => out.extend_from_slice(b),
            Chunk::Valid(p) => {
                ref_encode(framer, p, &mut out);
            }
            Chunk::ValidDoc(d) => {
                ref_encode(framer, &serde_json::to_vec(d).unwrap(), &mut out);
            }
            Chunk::Marker(pick) => match framer {
                Framer::Len { .. } => {
                    let w = framer.width().unwrap();
                    let max = if w == 8 { u64::MAX } else { (1u64 << (8 * w)) - 1 };
                    let v = match pick {
                        LenPick::Small(k) => *k as u64,
                        LenPick::Max => max,
                        LenPick::NearMax(k) => max.saturating_sub(*k as u64),
                        LenPick::Half => (max >> 1) + 1,
                    };
                    field(v, &mut out);
                }
                Framer::Noop => {}
                _ => out.extend_from_slice(&framer.delim().unwrap()),
            },
            Chunk::PartialMarker(k) => match framer {
                Framer::Len { .. } => {
                    let w = framer.width().unwrap();
                    out.extend(std::iter::repeat(0u8).take((*k as usize).min(w - 1)));
                }
                Framer::Noop => {}
                _ => {
                    let d = framer.delim().unwrap();
                    out.extend_from_slice(&d[..(*k as usize).min(d.len() - 1).max(usize::from(d.len() > 1))]);
                }
            },
        }
    }
    out
}

pub fn hostile_case() -> impl Strategy<Value = HostileCase> + Clone {
    (framer(), prop_oneof![3 => Just(CodecKind::Bytes), 2 => Just(CodecKind::Json)], vec(chunk(), 0..=8), vec(frag(), 0..=8), prop_oneof![2 => Just(0u16), 1 => 0u16..=64])
        .prop_map(|(framer, codec, chunks, rsched, rcap)| {
            let stream = assemble(&framer, &chunks);
            HostileCase { framer, codec, stream, rsched, rcap, strict: false }
        })
}

fn data() -> impl Strategy<Value = Data> + Clone {
    prop_oneof![
        2 => Just(Data::Unit),
        2 => any::<u8>().prop_map(Data::U8),
        1 => any::<u16>().prop_map(Data::U16),
        2 => any::<u32>().prop_map(Data::U32),
        2 => any::<i64>().prop_map(Data::I64),
        4 => (any::<u8>(), any::<u8>()).prop_map(|(k, seed)| Data::Arr { k, seed }),
        1 => any::<u32>().prop_map(Data::InAddr),
        1 => (any::<i32>(), any::<u32>(), any::<u32>()).prop_map(|(ifindex, spec_dst, addr)| Data::PktInfo { ifindex, spec_dst, addr }),
        1 => (any::<u8>(), any::<u32>()).prop_map(|(seed, ifindex)| Data::Pkt6Info { seed, ifindex }),
    ]
}

pub fn cmsg_case() -> impl Strategy<Value = CmsgCase> + Clone {
    (
        prop_oneof![3 => any::<u16>().prop_map(|len| BufKind::Custom { len }), 1 => (0u8..6).prop_map(|ix| BufKind::Fixed { ix })],
        prop_oneof![Just(0u8), Just(0xFFu8), any::<u8>()],
        vec((prop_oneof![Just(0i32), Just(1i32), Just(libc::SOL_SOCKET), any::<i32>()], prop_oneof![Just(libc::SCM_RIGHTS), any::<i32>()], data()).prop_map(|(level, ty, data)| Msg { level, ty, data }), 0..=8),
    )
        .prop_map(|(buf, prefill, msgs)| CmsgCase { buf, prefill, msgs, strict: false })
}
