//! Decoding of a libFuzzer byte string into the C13 case types (`arbitrary::Unstructured`), so the
//! fuzz target and `c13 --from-bytes <artifact>` run exactly the interpreters of the check.
//!
//! Layout: byte 0 selects the part (`% 4`: 0,1 = hostile, 2 = round trip, 3 = cmsg); hostile cases
//! take the framer and the schedule from a short header and **the rest of the input verbatim as
//! the peer stream**, so libFuzzer's mutations act directly on the bytes the framer sees.
use arbitrary::{Result, Unstructured};
use serde::{Deserialize, Serialize};
use vcore::Outcome;

use crate::{
    cmsg::{run_cmsg, BufKind, CmsgCase, Data, Msg},
    frames::{run_frames, run_hostile, CodecKind, Excl, Doc, FrameCase, Framer, HostileCase, Items},
    mock::Frag,
};

#[derive(Debug, Clone, Serialize, Deserialize)]
pub enum Input {
    Hostile(HostileCase),
    Frames(FrameCase),
    Cmsg(CmsgCase),
}

fn framer(u: &mut Unstructured) -> Result<Framer> {
    let b = u.arbitrary::<u8>()?;
    Ok(match b % 21 {
        k @ 0..=15 => Framer::Len { width: k % 8 + 1, big_endian: k < 8 },
        16 => Framer::CharNl,
        17 => Framer::CharR,
        18 => Framer::CharNul,
        19 => {
            let n = u.int_in_range(1..=4usize)?;
            Framer::Any { delim: u.bytes(n)?.to_vec() }
        }
        _ => Framer::Noop,
    })
}

fn frags(u: &mut Unstructured) -> Result<Vec<Frag>> {
    let n = u.int_in_range(0..=6usize)?;
    let mut v = vec![];
    for _ in 0..n {
        let b = u.arbitrary::<u8>()?;
        v.push(Frag { n: (b & 0x7f) as u16, pend: b & 0x80 != 0 });
    }
    Ok(v)
}

fn text(u: &mut Unstructured) -> Result<String> {
    let n = u.int_in_range(0..=6usize)?;
    const A: [char; 12] = ['a', 'z', '0', ' ', '"', '\\', '\n', '\0', 'é', 'ℝ', '😀', '{'];
    (0..n).map(|_| Ok(A[u.int_in_range(0..=11usize)?])).collect()
}

fn doc(u: &mut Unstructured, depth: u8) -> Result<Doc> {
    let nt = u.int_in_range(0..=2usize)?;
    Ok(Doc {
        id: u.arbitrary()?,
        name: text(u)?,
        n: u.arbitrary()?,
        flag: u.arbitrary()?,
        tags: (0..nt).map(|_| text(u)).collect::<Result<_>>()?,
        child: if depth == 0 && u.ratio(1u8, 4u8)? { Some(Box::new(doc(u, 1)?)) } else { None },
    })
}

pub fn decode(bytes: &[u8]) -> Result<Input> {
    let mut u = Unstructured::new(bytes);
    let sel = u.arbitrary::<u8>()?;
    Ok(match sel % 4 {
        0 | 1 => {
            let framer = framer(&mut u)?;
            let codec = if sel & 4 != 0 { CodecKind::Json } else { CodecKind::Bytes };
            let rsched = frags(&mut u)?;
            let rcap = u.arbitrary::<u8>()? as u16;
            let stream = u.take_rest().to_vec();
            Input::Hostile(HostileCase { framer, codec, stream, rsched, rcap, strict: false })
        }
        2 => {
            let framer = framer(&mut u)?;
            let n = u.int_in_range(0..=6usize)?;
            let items = if sel & 4 != 0 {
                Items::Json { pretty: sel & 8 != 0, docs: (0..n).map(|_| doc(&mut u, 0)).collect::<Result<_>>()? }
            } else {
                let mut v = vec![];
                for _ in 0..n {
                    let l = u.int_in_range(0..=40usize)?;
                    v.push(u.bytes(l.min(u.len()))?.to_vec());
                }
                Items::Bytes(v)
            };
            let ns = u.int_in_range(0..=3usize)?;
            FrameCase {
                framer,
                items,
                send: (0..ns).map(|_| u.arbitrary()).collect::<Result<_>>()?,
                end_close: u.arbitrary()?,
                wsched: frags(&mut u)?,
                lazy: u.ratio(1u8, 4u8)?,
                rsched: frags(&mut u)?,
                rcap: u.arbitrary::<u8>()? as u16,
                wcap: u.arbitrary::<u8>()? as u16,
                strict: false,
            }
            .into()
        }
        _ => {
            let buf = if sel & 4 != 0 { BufKind::Fixed { ix: u.arbitrary()? } } else { BufKind::Custom { len: u.arbitrary()? } };
            let prefill = u.arbitrary()?;
            let n = u.int_in_range(0..=8usize)?;
            let mut msgs = vec![];
            for _ in 0..n {
                let level = u.arbitrary()?;
                let ty = u.arbitrary()?;
                let data = match u.int_in_range(0..=8u8)? {
                    0 => Data::Unit,
                    1 => Data::U8(u.arbitrary()?),
                    2 => Data::U16(u.arbitrary()?),
                    3 => Data::U32(u.arbitrary()?),
                    4 => Data::I64(u.arbitrary()?),
                    5 => Data::InAddr(u.arbitrary()?),
                    6 => Data::PktInfo { ifindex: u.arbitrary()?, spec_dst: u.arbitrary()?, addr: u.arbitrary()? },
                    7 => Data::Pkt6Info { seed: u.arbitrary()?, ifindex: u.arbitrary()? },
                    _ => Data::Arr { k: u.arbitrary()?, seed: u.arbitrary()? },
                };
                msgs.push(Msg { level, ty, data });
            }
            Input::Cmsg(CmsgCase { buf, prefill, msgs, strict: false })
        }
    })
}

impl From<FrameCase> for Input {
    fn from(c: FrameCase) -> Self {
        Input::Frames(c)
    }
}

/// the inverse of `decode` for hostile cases (used to write the golden corpus)
pub fn encode_hostile(c: &HostileCase) -> Vec<u8> {
    let mut v = vec![if c.codec == CodecKind::Json { 4 } else { 0 }];
    match &c.framer {
        Framer::Len { width, big_endian } => v.push((width.clamp(&1, &8) - 1) + if *big_endian { 0 } else { 8 }),
        Framer::CharNl => v.push(16),
        Framer::CharR => v.push(17),
        Framer::CharNul => v.push(18),
        Framer::Any { delim } => {
            // int_in_range(1..=4) consumes one byte: value = 1 + byte % 4
            let d = &delim[..delim.len().clamp(1, 4).min(delim.len())];
            v.push(19);
            v.push((d.len() as u8).wrapping_sub(1));
            v.extend_from_slice(d);
        }
        Framer::Noop => v.push(20),
    }
    let n = c.rsched.len().min(6);
    v.push(n as u8);
    for f in &c.rsched[..n] {
        v.push((f.n.min(127) as u8) | if f.pend { 0x80 } else { 0 });
    }
    v.push(c.rcap.min(255) as u8);
    v.extend_from_slice(&c.stream);
    v
}

pub fn run(input: &Input, excl: Excl) -> Outcome {
    match input {
        Input::Hostile(c) => run_hostile(c, excl),
        Input::Frames(c) => run_frames(c, excl),
        Input::Cmsg(c) => run_cmsg(c, excl),
    }
}
