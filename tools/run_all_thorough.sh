#!/bin/bash
# runs every check's thorough tier once, one after the other; prints a one-line verdict per check
cd "$(dirname "$0")/.."
for id in $(./check --list); do
  t0=$(date +%s)
  out=$(VERIF_TIER=thorough ./check $id --tier thorough 2>&1)
  rc=$?
  echo "THOROUGH $id exit=$rc secs=$(( $(date +%s) - t0 )) $(echo "$out" | grep -E '^check: C' | tail -1)"
  echo "$out" | grep -E "VIOLATION|KNOWN-FINDING|inconclusive \(|exceeded the hard timeout|infrastructure" | cut -c1-300 | sort | uniq -c | head -8
done
