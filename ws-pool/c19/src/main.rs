//! C19 — actors: serial FIFO handling, ordered lifecycle, unique names (DESIGN.md §3 C19).
//!
//! A case is a program of steps executed by one controller thread against a real
//! `compio_actor::Cluster` (1–3 workers); `Burst` steps start 1–4 sender threads.  Every actor
//! writes a log (hooks, handler begin/end); verdicts are taken from logs, returned values and
//! `lookup` results.  A call is driven by polling its future by hand: once the actor's handle has
//! resolved (actor, receiver and registration are gone) one more poll that is still `Pending`
//! means the call can never be answered — an exact verdict, no timing involved.
mod actors;

use std::{
    collections::{HashMap, HashSet},
    future::{Future, IntoFuture},
    num::NonZeroUsize,
    pin::{pin, Pin},
    sync::{
        atomic::{AtomicBool, AtomicUsize, Ordering},
        mpsc, Arc,
    },
    task::{Context, Poll, Wake, Waker},
    time::{Duration, Instant},
};

use actors::*;
use compio_actor::{
    cluster::SpawnError,
    mailbox::{CallError, DeliverError},
    process_group::{Membership, ProcessGroup},
    ActorExit, ActorHandle, Call, Cluster, Mailbox,
};
use compio_dispatcher::Dispatcher;
use serde::{Deserialize, Serialize};
use vcore::{
    mono_ix,
    proptest::{collection::vec, prelude::*},
    Outcome, Part, Session,
};

const WATCHDOG: Duration = Duration::from_secs(30);
const KNOWN_STUCK: &str = "C19/call-queued-at-exit/never-answered";
/// the residual window of fix eb9af6c: the call entered the mailbox while the actor was already exiting
const KNOWN_STUCK_RACY: &str = "C19/call-queued-at-exit/never-answered/accepted-while-exiting";
/// set (before the fact) as soon as anybody asks the burst's actor to exit; cases run one at a time per process
static EXIT_BEGUN: AtomicBool = AtomicBool::new(false);
thread_local! {
    /// `EXIT_BEGUN` as sampled right after the first poll of the last `drive_call` on this thread (= after its send)
    static CALL_WHILE_EXITING: std::cell::Cell<bool> = const { std::cell::Cell::new(false) };
}

// ------------------------------------------------------------------------------------------------
// case type

#[derive(Debug, Clone, Serialize, Deserialize)]
pub struct Op {
    pub call: bool,
    pub act: Act,
    /// go through a `Broker` instead of the `Mailbox`
    pub broker: bool,
}

#[derive(Debug, Clone, Copy, Serialize, Deserialize, PartialEq)]
pub enum ExitKind {
    Stop,
    FailMsg,
    StopSelfMsg,
}

#[derive(Debug, Clone, Serialize, Deserialize)]
pub struct ExitRace {
    pub kind: ExitKind,
    pub after_us: u16,
}

#[derive(Debug, Clone, Serialize, Deserialize)]
pub enum Step {
    Spawn { slot: u8, named: bool, cap: u8, fail: StartFail, supervised: bool, slow: bool },
    /// 1-4 threads send/call concurrently; the controller may stop / fail the actor meanwhile
    Burst { slot: u16, senders: Vec<Vec<Op>>, exit: Option<ExitRace>, calls_may_race: bool },
    Stop { slot: u16 },
    /// park the actor inside a handler (gate) and fill its mailbox to capacity
    Block { slot: u16 },
    Unblock { slot: u16 },
    GroupJoin { slot: u16 },
    GroupLeave { member: u16 },
    /// controller alone, system quiescent: the routing result is known exactly
    GroupSend { n: u8, call: bool },
    GroupBurst { senders: Vec<Vec<Op>> },
}

#[derive(Debug, Clone, Serialize, Deserialize)]
pub struct ActorCase {
    pub workers: u8,
    pub respawns: u8,
    pub steps: Vec<Step>,
}

// ------------------------------------------------------------------------------------------------
// small executor helpers

struct ThreadWaker(std::thread::Thread);

impl Wake for ThreadWaker {
    fn wake(self: Arc<Self>) {
        self.0.unpark();
    }
}

fn block_on_for<F: Future>(fut: F, max: Duration) -> Option<F::Output> {
    let mut fut = pin!(fut);
    let waker = Waker::from(Arc::new(ThreadWaker(std::thread::current())));
    let mut cx = Context::from_waker(&waker);
    let end = Instant::now() + max;
    loop {
        if let Poll::Ready(v) = fut.as_mut().poll(&mut cx) {
            return Some(v);
        }
        let now = Instant::now();
        if now >= end {
            return None;
        }
        std::thread::park_timeout((end - now).min(Duration::from_millis(50)));
    }
}

enum Driven<T> {
    Done(T),
    /// the actor is gone (handle resolved before this poll started) and the call is still pending
    Stuck,
    Timeout,
}

fn drive_call<F: Future>(fut: F, gone: &AtomicBool, max: Duration) -> Driven<F::Output> {
    let mut fut = pin!(fut);
    let waker = Waker::from(Arc::new(ThreadWaker(std::thread::current())));
    let mut cx = Context::from_waker(&waker);
    let end = Instant::now() + max;
    let mut first = true;
    loop {
        let was_gone = gone.load(Ordering::SeqCst);
        let r = fut.as_mut().poll(&mut cx);
        if first {
            // the request is in the mailbox now (or was refused): had an exit already been asked for?
            CALL_WHILE_EXITING.with(|c| c.set(EXIT_BEGUN.load(Ordering::SeqCst)));
            first = false;
        }
        if let Poll::Ready(v) = r {
            return Driven::Done(v);
        }
        if was_gone {
            return Driven::Stuck;
        }
        if Instant::now() >= end {
            return Driven::Timeout;
        }
        std::thread::park_timeout(Duration::from_millis(1));
    }
}

fn poll_once<F: Future + Unpin>(fut: &mut F) -> Option<F::Output> {
    let waker = Waker::from(Arc::new(ThreadWaker(std::thread::current())));
    let mut cx = Context::from_waker(&waker);
    match Pin::new(fut).poll(&mut cx) {
        Poll::Ready(v) => Some(v),
        Poll::Pending => None,
    }
}

// ------------------------------------------------------------------------------------------------
// model

#[derive(Debug, Clone, PartialEq)]
enum Out {
    SendOk,
    SendFull,
    SendClosed,
    CallOk(usize),
    CallFull,
    CallClosed,
    CallNoReply,
    CallStuck,
    Timeout,
    Wrong(String),
}

#[derive(Debug, Clone)]
struct Rec {
    id: MsgId,
    call: bool,
    act: Act,
    out: Out,
    /// (calls) an exit of the actor had been asked for by the time the request entered the mailbox
    while_exiting: bool,
}

impl Rec {
    fn accepted(&self) -> bool {
        matches!(self.out, Out::SendOk | Out::CallOk(_) | Out::CallNoReply | Out::CallStuck)
    }
}

struct Live {
    aid: usize,
    mailbox: Mailbox<TA>,
    handle: Option<ActorHandle<String>>,
    exit: Option<ActorExit<String>>,
    name: Option<String>,
    supervised: bool,
    blocked: Option<usize>,
    /// how many log entries existed when the blocking handler had begun and the queue was full
    /// per sender: accepted sequence numbers in sending order
    accepted: HashMap<u16, Vec<u32>>,
    stop_requested: bool,
    fail_accepted: bool,
    stopself_accepted: bool,
    post_start_fail: bool,
    gone: Arc<AtomicBool>,
    /// messages handled when stop() was requested on a parked actor (none may follow)
    frozen_handled: Option<usize>,
}

struct Member {
    aid: usize,
    _cast: Membership<Cast>,
    _call: Membership<Call<Ask, Ans>>,
}

struct World {
    sh: Arc<Sh>,
    cluster: Cluster,
    slots: Vec<Option<Live>>,
    sup: Option<(Mailbox<Sup>, ActorHandle<String>)>,
    g_cast: ProcessGroup<Cast>,
    g_call: ProcessGroup<Call<Ask, Ans>>,
    members: Vec<Member>,
    next_sender: u16,
    ctrl_seq: u32,
    budget: i32,
    /// per name: expected supervisor events in order
    sup_expect: HashMap<String, Vec<SupKind>>,
    labels: HashSet<String>,
    known_stuck: Option<String>,
    known_stuck_racy: Option<String>,
    names_used: HashMap<String, u32>,
    exit_with_concurrent_senders: bool,
}

const CTRL: u16 = 0xffff;

type Fail = Outcome;

fn viol(sig: &str, detail: String) -> Outcome {
    Outcome::violation(sig, detail)
}

fn slot_name(slot: usize) -> String {
    format!("n{slot}")
}

fn handled_ids(log: &[Ev]) -> Vec<MsgId> {
    log.iter().filter_map(|e| if let Ev::Begin(id) = e { Some(*id) } else { None }).collect()
}

impl World {
    fn live_slots(&self) -> Vec<usize> {
        (0..self.slots.len()).filter(|i| self.slots[*i].is_some()).collect()
    }

    fn pick(&self, raw: u16) -> Option<usize> {
        let l = self.live_slots();
        if l.is_empty() {
            None
        } else {
            Some(l[mono_ix(raw, l.len())])
        }
    }

    fn new_sender(&mut self) -> u16 {
        self.next_sender += 1;
        self.next_sender
    }

    fn factory(&self, aid: usize, fail: StartFail, start_gate: Option<usize>) -> impl FnOnce() -> TA + Send + 'static {
        let sh = self.sh.clone();
        move || TA { aid, sh, fail, start_gate }
    }

    // ---------------------------------------------------------------- serial handling / lifecycle audits

    /// handlers strictly alternate Begin/End, never overlap, each message at most once, only accepted ones
    fn audit_log(&self, l: &Live, log: &[Ev], group_accepted: &HashSet<MsgId>) -> Result<(), Fail> {
        let st = &self.sh.actors[l.aid];
        if st.max_in_handler.load(Ordering::SeqCst) > 1 {
            return Err(viol("C19/handlers-overlap", format!("actor {}: {} handlers were running at once", l.aid, st.max_in_handler.load(Ordering::SeqCst))));
        }
        let mut open: Option<MsgId> = None;
        let mut seen = HashSet::new();
        let mut last_per_sender: HashMap<u16, u32> = HashMap::new();
        for e in log {
            match e {
                Ev::Begin(id) => {
                    if let Some(o) = open {
                        return Err(viol("C19/handlers-overlap", format!("actor {}: handler of {id:?} began while {o:?} was still being handled; log {log:?}", l.aid)));
                    }
                    open = Some(*id);
                    if !seen.insert(*id) {
                        return Err(viol("C19/message-handled-twice", format!("actor {}: message {id:?} handled twice; log {log:?}", l.aid)));
                    }
                    let direct = l.accepted.get(&id.0).map(|v| v.contains(&id.1)).unwrap_or(false);
                    if !direct && !group_accepted.contains(id) {
                        return Err(viol("C19/rejected-message-handled", format!("actor {}: handled {id:?}, which no send reported as accepted (it was handed back or never sent here)", l.aid)));
                    }
                    if let Some(prev) = last_per_sender.insert(id.0, id.1) {
                        if prev >= id.1 {
                            return Err(viol("C19/fifo-violated", format!("actor {}: sender {} message #{} handled after #{prev}; log {log:?}", l.aid, id.0, id.1)));
                        }
                    }
                }
                Ev::End(id) => {
                    if open != Some(*id) {
                        return Err(viol("C19/handlers-overlap", format!("actor {}: End({id:?}) without matching Begin; log {log:?}", l.aid)));
                    }
                    open = None;
                }
                _ => {}
            }
        }
        // per sender: handled = prefix of accepted (FIFO mailbox: nothing is skipped)
        let handled = handled_ids(log);
        for (s, acc) in &l.accepted {
            let h: Vec<u32> = handled.iter().filter(|id| id.0 == *s).map(|id| id.1).collect();
            if h.len() > acc.len() || h[..] != acc[..h.len()] {
                return Err(viol("C19/fifo-violated", format!("actor {}: sender {s}: accepted in order {acc:?} but handled {h:?} (not a prefix)", l.aid)));
            }
        }
        Ok(())
    }

    /// all messages accepted directly by this (alive, fenced) actor were handled
    fn audit_drained(&self, l: &Live) -> Result<(), Fail> {
        let log = self.sh.log_of(l.aid);
        let handled: HashSet<MsgId> = handled_ids(&log).into_iter().collect();
        for (s, acc) in &l.accepted {
            for q in acc {
                if !handled.contains(&(*s, *q)) {
                    return Err(viol(
                        "C19/accepted-message-never-handled",
                        format!("actor {} is alive and has handled a later fence message, but accepted message ({s},{q}) was never handled; log {log:?}", l.aid),
                    ));
                }
            }
        }
        Ok(())
    }

    fn audit_exit(&mut self, l: &Live, exit: &ActorExit<String>, group_accepted: &HashSet<MsgId>) -> Result<(), Fail> {
        let log = self.sh.log_of(l.aid);
        let n = log.len();
        let shape_ok = n >= 4
            && log[0] == Ev::PreStart
            && log[1] == Ev::PostStart
            && log[n - 2] == Ev::PreStop
            && log[n - 1] == Ev::PostStop
            && log[2..n - 2].iter().all(|e| matches!(e, Ev::Begin(_) | Ev::End(_)));
        if !shape_ok {
            return Err(viol("C19/lifecycle-order", format!("actor {}: hooks not pre_start, post_start, handlers, pre_stop, post_stop exactly once each: {log:?}", l.aid)));
        }
        if l.post_start_fail && n != 4 {
            return Err(viol("C19/lifecycle-order", format!("actor {}: post_start failed but messages were handled: {log:?}", l.aid)));
        }
        self.audit_log(l, &log, group_accepted)?;
        if let Some(k) = l.frozen_handled {
            let h = handled_ids(&log).len();
            if h > k {
                return Err(viol(
                    "C19/message-handled-after-stop-request",
                    format!("actor {}: stop() was requested (returned true) while a handler was parked with {k} messages handled; {h} were handled in the end: {log:?}", l.aid),
                ));
            }
        }
        let stop_cause = l.stop_requested || l.stopself_accepted;
        let fail_cause = l.fail_accepted || l.post_start_fail;
        let ok = match exit {
            ActorExit::Stopped => stop_cause,
            ActorExit::Failed(e) => fail_cause && (e.contains("handler failed") || e.contains("post_start failed")),
        };
        if !ok {
            let sig = if !stop_cause && !fail_cause { "C19/actor-exited-unrequested" } else { "C19/wrong-exit-value" };
            return Err(viol(sig, format!("actor {}: exit {exit:?}; stop requested: {stop_cause}, failure accepted: {fail_cause}", l.aid)));
        }
        if l.supervised {
            if let Some(name) = &l.name {
                let e = self.sup_expect.entry(name.clone()).or_default();
                if !l.post_start_fail {
                    e.push(SupKind::Started);
                }
                e.push(if matches!(exit, ActorExit::Stopped) { SupKind::Terminated } else { SupKind::Failed });
            }
        }
        Ok(())
    }

    // ---------------------------------------------------------------- registry

    fn probe(&mut self, mb: &Mailbox<TA>, accepted: Option<&mut HashMap<u16, Vec<u32>>>) -> Result<Option<usize>, Fail> {
        // a call from the controller; retried while the mailbox is full
        let end = Instant::now() + WATCHDOG;
        let mut accepted = accepted;
        loop {
            self.ctrl_seq += 1;
            let id = (CTRL, self.ctrl_seq);
            match block_on_for(mb.call::<Ask, Ans>(Ask { id, act: Act::Nop }), WATCHDOG) {
                None => return Err(Outcome::inconclusive("probe call not answered within the watchdog")),
                Some(Ok(a)) => {
                    if a.id != id {
                        return Err(viol("C19/reply-reached-wrong-caller", format!("probe {id:?} got the reply for {:?}", a.id)));
                    }
                    if let Some(acc) = accepted.as_deref_mut() {
                        acc.entry(CTRL).or_default().push(id.1);
                    }
                    return Ok(Some(a.aid));
                }
                Some(Err(CallError::Full(_))) => {
                    if Instant::now() > end {
                        return Err(Outcome::inconclusive("mailbox stayed full during a probe"));
                    }
                    std::thread::sleep(Duration::from_micros(200));
                }
                Some(Err(_)) => return Ok(None),
            }
        }
    }

    fn audit_registry(&mut self) -> Result<(), Fail> {
        for slot in 0..self.slots.len() {
            let name = slot_name(slot);
            let found = self.cluster.lookup::<TA, _>(name.clone());
            let expect = self.slots[slot].as_ref().filter(|l| l.name.is_some()).map(|l| (l.aid, l.blocked.is_some()));
            match (expect, found) {
                (None, None) => {}
                (None, Some(_)) => {
                    return Err(viol("C19/name-not-released", format!("lookup({name:?}) finds an actor although its owner has exited (handle resolved) or never started")));
                }
                (Some((aid, _)), None) => {
                    return Err(viol("C19/live-actor-not-found", format!("lookup({name:?}) is None although actor {aid} started under that name and has not been stopped")));
                }
                (Some((aid, blocked)), Some(mb)) => {
                    if mb.name() != Some(name.as_str()) {
                        return Err(viol("C19/lookup-wrong-actor", format!("lookup({name:?}) returned a mailbox named {:?}", mb.name())));
                    }
                    if !blocked {
                        let mut acc = self.slots[slot].as_mut().unwrap().accepted.clone();
                        let got = self.probe(&mb, Some(&mut acc))?;
                        self.slots[slot].as_mut().unwrap().accepted = acc;
                        if got != Some(aid) {
                            return Err(viol("C19/lookup-wrong-actor", format!("lookup({name:?}) reaches actor {got:?}, the live owner of the name is actor {aid}")));
                        }
                    }
                }
            }
        }
        Ok(())
    }

    // ---------------------------------------------------------------- exits

    fn poll_exit(&mut self, slot: usize) -> bool {
        let l = self.slots[slot].as_mut().unwrap();
        if l.exit.is_some() {
            return true;
        }
        if let Some(h) = l.handle.as_mut() {
            if let Some(r) = poll_once(h) {
                l.handle = None;
                match r {
                    Ok(e) => l.exit = Some(e),
                    Err(_) => l.exit = Some(ActorExit::Failed("<worker stopped>".into())),
                }
                l.gone.store(true, Ordering::SeqCst);
                return true;
            }
        }
        false
    }

    /// wait for the exit, audit the dead actor, free the slot, follow a supervisor respawn
    fn reap(&mut self, slot: usize, group_accepted: &HashSet<MsgId>) -> Result<(), Fail> {
        let end = Instant::now() + WATCHDOG;
        while !self.poll_exit(slot) {
            if Instant::now() > end {
                return Err(Outcome::inconclusive("actor did not exit within the watchdog"));
            }
            std::thread::sleep(Duration::from_micros(300));
        }
        let mut l = self.slots[slot].take().unwrap();
        let exit = l.exit.take().unwrap();
        if exit == ActorExit::Failed("<worker stopped>".into()) {
            return Err(viol("C19/actor-handle-error", format!("actor {}: handle reported that the worker stopped before the exit", l.aid)));
        }
        self.members.retain(|m| m.aid != l.aid || true); // memberships of dead actors stay until evicted or left
        self.audit_exit(&l, &exit, group_accepted)?;
        // the name is free once the handle has resolved; a supervisor may re-use it at once
        if l.supervised && l.name.is_some() && self.sup.is_some() {
            let name = l.name.clone().unwrap();
            let expect_n = self.sup_expect[&name].len();
            let end = Instant::now() + WATCHDOG;
            loop {
                let seen = self.sh.sup_log.lock().unwrap().iter().filter(|(_, n)| n.as_deref() == Some(name.as_str())).count();
                if seen >= expect_n {
                    break;
                }
                if Instant::now() > end {
                    return Err(Outcome::inconclusive("supervisor did not record the terminal event within the watchdog"));
                }
                std::thread::sleep(Duration::from_micros(300));
            }
            if self.budget > 0 {
                self.budget -= 1;
                let end = Instant::now() + WATCHDOG;
                loop {
                    if let Some(e) = self.sh.respawn_errors.lock().unwrap().first() {
                        return Err(viol("C19/name-not-free-at-terminal-event", e.clone()));
                    }
                    let r = {
                        let mut rs = self.sh.respawned.lock().unwrap();
                        rs.iter().position(|r| r.name == name).map(|i| rs.remove(i))
                    };
                    if let Some(r) = r {
                        *self.names_used.entry(name.clone()).or_default() += 1;
                        self.labels.insert("respawned-by-supervisor".into());
                        self.slots[slot] = Some(Live {
                            aid: r.aid,
                            mailbox: r.mailbox,
                            handle: Some(r.handle),
                            exit: None,
                            name: Some(name),
                            supervised: true,
                            blocked: None,
                            accepted: HashMap::new(),
                            stop_requested: false,
                            fail_accepted: false,
                            stopself_accepted: false,
                            post_start_fail: false,
                            gone: Arc::new(AtomicBool::new(false)),
                            frozen_handled: None,
                        });
                        break;
                    }
                    if Instant::now() > end {
                        return Err(Outcome::inconclusive("supervisor did not finish the respawn within the watchdog"));
                    }
                    std::thread::sleep(Duration::from_micros(300));
                }
            }
        }
        Ok(())
    }

    /// FIFO fence: a controller message handled => everything accepted before it was handled
    fn fence(&mut self, slot: usize) -> Result<bool, Fail> {
        let end = Instant::now() + WATCHDOG;
        let id = loop {
            self.ctrl_seq += 1;
            let id = (CTRL, self.ctrl_seq);
            let l = self.slots[slot].as_mut().unwrap();
            match l.mailbox.send(Cast { id, act: Act::Nop }) {
                Ok(()) => {
                    l.accepted.entry(CTRL).or_default().push(id.1);
                    break id;
                }
                Err(DeliverError::Full(m)) => {
                    if m.id != id {
                        return Err(viol("C19/wrong-message-handed-back", format!("sent {id:?}, Full returned {:?}", m.id)));
                    }
                    if Instant::now() > end {
                        return Err(Outcome::inconclusive("mailbox stayed full during a fence"));
                    }
                    std::thread::sleep(Duration::from_micros(200));
                }
                Err(DeliverError::Closed(_)) => return Ok(false),
            }
        };
        let aid = self.slots[slot].as_ref().unwrap().aid;
        loop {
            if self.sh.actors[aid].log.lock().unwrap().iter().any(|e| *e == Ev::End(id)) {
                return Ok(true);
            }
            if self.poll_exit(slot) {
                return Ok(false);
            }
            if Instant::now() > end {
                return Err(Outcome::inconclusive("fence message not handled within the watchdog"));
            }
            std::thread::sleep(Duration::from_micros(200));
        }
    }

    /// fence + "everything accepted was handled"; an unexpected exit is reported by reap()
    fn settle(&mut self, slot: usize, group_accepted: &HashSet<MsgId>) -> Result<(), Fail> {
        if self.slots[slot].as_ref().map(|l| l.blocked.is_some()).unwrap_or(true) {
            return Ok(());
        }
        if self.fence(slot)? {
            let l = self.slots[slot].as_ref().unwrap();
            self.audit_drained(l)?;
            let log = self.sh.log_of(l.aid);
            self.audit_log(l, &log, group_accepted)
        } else {
            self.reap(slot, group_accepted)
        }
    }
}

// ------------------------------------------------------------------------------------------------
// sender threads

#[derive(Clone)]
enum Target {
    Direct(Mailbox<TA>),
    Group(ProcessGroup<Cast>, ProcessGroup<Call<Ask, Ans>>),
}

fn run_sender(target: Target, sender: u16, ops: Vec<Op>, gone: Arc<AtomicBool>, cause: Arc<AtomicBool>, arrived: Arc<AtomicUsize>, n: usize) -> Vec<Rec> {
    arrived.fetch_add(1, Ordering::SeqCst);
    let end = Instant::now() + Duration::from_secs(2);
    while arrived.load(Ordering::SeqCst) < n && Instant::now() < end {
        std::thread::yield_now();
    }
    let mut recs = vec![];
    for (k, op) in ops.iter().enumerate() {
        let id = (sender, k as u32);
        if matches!(op.act, Act::Fail | Act::StopSelf) {
            EXIT_BEGUN.store(true, Ordering::SeqCst);
        }
        CALL_WHILE_EXITING.with(|c| c.set(false));
        let out = if op.call {
            let ask = Ask { id, act: op.act };
            let r = match &target {
                Target::Direct(mb) => {
                    if op.broker {
                        let b = mb.broker::<Call<Ask, Ans>>();
                        drive_call(b.call(ask), &gone, WATCHDOG)
                    } else {
                        drive_call(mb.call::<Ask, Ans>(ask), &gone, WATCHDOG)
                    }
                }
                Target::Group(_, g) => drive_call(g.call(ask), &gone, WATCHDOG),
            };
            match r {
                Driven::Stuck => Out::CallStuck,
                Driven::Timeout => Out::Timeout,
                Driven::Done(Ok(a)) => {
                    if a.id == id {
                        Out::CallOk(a.aid)
                    } else {
                        Out::Wrong(format!("call {id:?} received the reply for {:?}", a.id))
                    }
                }
                Driven::Done(Err(CallError::NoReply)) => Out::CallNoReply,
                Driven::Done(Err(CallError::Full(m))) => {
                    if m.id == id {
                        Out::CallFull
                    } else {
                        Out::Wrong(format!("call {id:?}: Full handed back {:?}", m.id))
                    }
                }
                Driven::Done(Err(CallError::Closed(m))) => {
                    if m.id == id {
                        Out::CallClosed
                    } else {
                        Out::Wrong(format!("call {id:?}: Closed handed back {:?}", m.id))
                    }
                }
            }
        } else {
            let m = Cast { id, act: op.act };
            let r = match &target {
                Target::Direct(mb) => {
                    if op.broker {
                        mb.broker::<Cast>().send(m)
                    } else {
                        mb.send(m)
                    }
                }
                Target::Group(g, _) => g.send(m),
            };
            match r {
                Ok(()) => Out::SendOk,
                Err(DeliverError::Full(m)) if m.id == id => Out::SendFull,
                Err(DeliverError::Closed(m)) if m.id == id => Out::SendClosed,
                Err(e) => Out::Wrong(format!("send {id:?} handed back {:?}", e.into_inner().id)),
            }
        };
        let rec = Rec { id, call: op.call, act: op.act, out, while_exiting: op.call && CALL_WHILE_EXITING.with(|c| c.get()) };
        if rec.accepted() && matches!(op.act, Act::Fail | Act::StopSelf) {
            cause.store(true, Ordering::SeqCst);
        }
        recs.push(rec);
    }
    recs
}

// ------------------------------------------------------------------------------------------------
// interpreter

pub fn run_case(case: &ActorCase) -> Outcome {
    match run_inner(case) {
        Ok(o) | Err(o) => o,
    }
}

fn run_inner(case: &ActorCase) -> Result<Outcome, Fail> {
    let workers = case.workers.clamp(1, 3) as usize;
    let dispatcher = Dispatcher::builder()
        .worker_threads(NonZeroUsize::new(workers).unwrap())
        .thread_names(|i| format!("c19w-{i}"))
        .build()
        .map_err(|e| Outcome::inconclusive(format!("dispatcher: {e}")))?;
    let cluster = Cluster::from_dispatcher(dispatcher);
    let sh = Sh::new(case.respawns.min(3) as i32);
    let mut w = World {
        sh: sh.clone(),
        cluster: cluster.clone(),
        slots: (0..4).map(|_| None).collect(),
        sup: None,
        g_cast: ProcessGroup::new(),
        g_call: ProcessGroup::new(),
        members: vec![],
        next_sender: 0,
        ctrl_seq: 0,
        budget: case.respawns.min(3) as i32,
        sup_expect: HashMap::new(),
        labels: HashSet::new(),
        known_stuck: None,
        known_stuck_racy: None,
        names_used: HashMap::new(),
        exit_with_concurrent_senders: false,
    };
    let mut group_accepted: HashSet<MsgId> = HashSet::new();
    if case.steps.iter().any(|s| matches!(s, Step::Spawn { supervised: true, named: true, .. })) {
        let sh2 = sh.clone();
        match block_on_for(cluster.spawn(move || Sup { sh: sh2 }, ()).into_future(), WATCHDOG) {
            Some(Ok(s)) => w.sup = Some(s),
            Some(Err(e)) => return Err(viol("C19/supervisor-spawn-failed", format!("{e:?}"))),
            None => return Err(Outcome::inconclusive("supervisor did not start within the watchdog")),
        }
    }
    let r = run_steps(&mut w, case, &mut group_accepted);
    // ---- tear down (also after a failure, so that no thread outlives the case)
    let teardown = teardown(&mut w, &group_accepted, r.is_ok());
    r?;
    teardown?;
    // supervisor log
    let log = sh.sup_log.lock().unwrap().clone();
    for (name, expect) in &w.sup_expect {
        let got: Vec<SupKind> = log.iter().filter(|(_, n)| n.as_deref() == Some(name.as_str())).map(|(k, _)| *k).collect();
        if &got != expect {
            return Err(viol("C19/supervision-events", format!("name {name:?}: supervisor saw {got:?}, the children's lives were {expect:?}")));
        }
    }
    if let Some(d) = w.known_stuck {
        return Err(viol(KNOWN_STUCK, d));
    }
    if let Some(d) = w.known_stuck_racy {
        return Err(viol(KNOWN_STUCK_RACY, d));
    }
    if w.names_used.values().any(|n| *n >= 2) {
        w.labels.insert("name-reused".into());
    }
    let nontrivial = w.exit_with_concurrent_senders || w.names_used.values().any(|n| *n >= 2);
    let mut labels: Vec<String> = w.labels.into_iter().collect();
    labels.sort();
    Ok(Outcome::pass_owned(nontrivial, labels))
}

fn teardown(w: &mut World, group_accepted: &HashSet<MsgId>, audit: bool) -> Result<(), Fail> {
    let mut first_err = None;
    for slot in 0..w.slots.len() {
        if w.slots[slot].is_none() {
            continue;
        }
        // a supervisor must not resurrect actors during tear-down
        w.budget = 0;
        w.sh.respawn_budget.store(0, Ordering::SeqCst);
        let l = w.slots[slot].as_mut().unwrap();
        if let Some(g) = l.blocked.take() {
            w.sh.open_gate(g);
        }
        if !(l.stop_requested || l.fail_accepted || l.stopself_accepted) {
            l.mailbox.stop();
            l.stop_requested = true;
        }
        if audit {
            if let Err(e) = w.reap(slot, group_accepted) {
                first_err.get_or_insert(e);
            }
        } else {
            let end = Instant::now() + Duration::from_secs(10);
            while !w.poll_exit(slot) && Instant::now() < end {
                std::thread::sleep(Duration::from_millis(1));
            }
            w.slots[slot] = None;
        }
    }
    w.members.clear();
    if let Some((mb, h)) = w.sup.take() {
        mb.stop();
        let _ = block_on_for(h, Duration::from_secs(10));
    }
    match block_on_for(w.cluster.clone().join(), WATCHDOG) {
        Some(Ok(())) => {}
        Some(Err(e)) => {
            first_err.get_or_insert(viol("C19/cluster-join-error", format!("{e}")));
        }
        None => {
            first_err.get_or_insert(Outcome::inconclusive("cluster.join() did not return within the watchdog"));
        }
    }
    match first_err {
        Some(e) => Err(e),
        None => Ok(()),
    }
}

fn run_steps(w: &mut World, case: &ActorCase, group_accepted: &mut HashSet<MsgId>) -> Result<(), Fail> {
    for step in &case.steps {
        match step {
            Step::Spawn { slot, named, cap, fail, supervised, slow } => step_spawn(w, *slot as usize % 4, *named, (*cap).clamp(1, 8), *fail, *supervised, *slow, group_accepted)?,
            Step::Burst { slot, senders, exit, calls_may_race } => {
                if let Some(s) = w.pick(*slot) {
                    step_burst(w, s, senders, exit.as_ref(), *calls_may_race, group_accepted)?;
                }
            }
            Step::Stop { slot } => {
                if let Some(s) = w.pick(*slot) {
                    let l = w.slots[s].as_mut().unwrap();
                    let first = l.mailbox.stop();
                    if !first {
                        return Err(viol("C19/stop-returned-false", format!("actor {}: first stop() on a running actor returned false", l.aid)));
                    }
                    l.stop_requested = true;
                    if let Some(g) = l.blocked.take() {
                        // the handler is provably parked: nothing queued may be handled any more
                        l.frozen_handled = Some(handled_ids(&w.sh.log_of(l.aid)).len());
                        w.sh.open_gate(g);
                        w.labels.insert("stop-with-full-queue".into());
                    }
                    w.reap(s, group_accepted)?;
                }
            }
            Step::Block { slot } => {
                if let Some(s) = w.pick(*slot) {
                    step_block(w, s, group_accepted)?;
                }
            }
            Step::Unblock { slot } => {
                if let Some(s) = w.pick(*slot) {
                    if let Some(g) = w.slots[s].as_mut().unwrap().blocked.take() {
                        w.sh.open_gate(g);
                        w.settle(s, group_accepted)?;
                    }
                }
            }
            Step::GroupJoin { slot } => {
                if let Some(s) = w.pick(*slot) {
                    let l = w.slots[s].as_ref().unwrap();
                    if !w.members.iter().any(|m| m.aid == l.aid) {
                        let m = Member { aid: l.aid, _cast: w.g_cast.join(l.mailbox.broker::<Cast>()), _call: w.g_call.join(l.mailbox.broker::<Call<Ask, Ans>>()) };
                        w.members.push(m);
                        w.labels.insert("group-join".into());
                    }
                }
            }
            Step::GroupLeave { member } => {
                if !w.members.is_empty() {
                    let i = mono_ix(*member, w.members.len());
                    let m = w.members.remove(i);
                    m._cast.leave();
                    m._call.leave();
                    w.labels.insert("group-leave".into());
                }
            }
            Step::GroupSend { n, call } => step_group_send(w, (*n).clamp(1, 6), *call, group_accepted)?,
            Step::GroupBurst { senders } => step_group_burst(w, senders, group_accepted)?,
        }
        w.audit_registry()?;
    }
    Ok(())
}

#[allow(clippy::too_many_arguments)]
fn step_spawn(w: &mut World, slot: usize, named: bool, cap: u8, fail: StartFail, supervised: bool, slow: bool, group_accepted: &HashSet<MsgId>) -> Result<(), Fail> {
    let name = slot_name(slot);
    if let Some(l) = &w.slots[slot] {
        if named && l.name.is_some() {
            // the name is taken by a live actor
            let aid = w.sh.next_aid.fetch_add(1, Ordering::SeqCst);
            let r = block_on_for(w.cluster.spawn(w.factory(aid, StartFail::None, None), ()).with_name(name.clone()).into_future(), WATCHDOG);
            return match r {
                None => Err(Outcome::inconclusive("duplicate spawn did not return")),
                Some(Err(SpawnError::NameTaken(n))) if n == name => {
                    w.labels.insert("name-taken".into());
                    if !w.sh.log_of(aid).is_empty() {
                        return Err(viol("C19/rejected-spawn-ran-hooks", format!("spawn under the taken name {name:?} was refused but its actor ran {:?}", w.sh.log_of(aid))));
                    }
                    Ok(())
                }
                Some(other) => Err(viol("C19/duplicate-name-accepted", format!("name {name:?} belongs to live actor {}, a second spawn returned {:?}", l.aid, other.map(|_| "Ok(..)")))),
            };
        }
        return Ok(());
    }
    let aid = w.sh.next_aid.fetch_add(1, Ordering::SeqCst);
    if aid + 8 > MAX_ACTORS {
        return Ok(());
    }
    let supervised = supervised && named && w.sup.is_some();
    let gate = if slow && named { Some(w.sh.next_gate.fetch_add(1, Ordering::SeqCst)) } else { None };
    let mut b = w.cluster.spawn(w.factory(aid, fail, gate), ()).with_capacity(NonZeroUsize::new(cap as usize).unwrap());
    if named {
        b = b.with_name(name.clone());
    }
    if supervised {
        b = b.with_supervisor(&w.sup.as_ref().unwrap().0);
    }
    let fut = b.into_future();
    let result = if let Some(g) = gate {
        // start-up is parked inside pre_start: the name is reserved but must be invisible
        let (tx, rx) = mpsc::channel();
        let h = std::thread::Builder::new()
            .name("c19spawn".into())
            .spawn(move || {
                let _ = tx.send(block_on_for(fut, WATCHDOG));
            })
            .expect("spawn thread");
        let end = Instant::now() + WATCHDOG;
        while w.sh.log_of(aid).is_empty() {
            if Instant::now() > end {
                w.sh.open_gate(g);
                let _ = h.join();
                return Err(Outcome::inconclusive("pre_start did not begin within the watchdog"));
            }
            std::thread::sleep(Duration::from_micros(200));
        }
        let visible = w.cluster.lookup::<TA, _>(name.clone()).is_some();
        let aid2 = w.sh.next_aid.fetch_add(1, Ordering::SeqCst);
        let dup = block_on_for(w.cluster.spawn(w.factory(aid2, StartFail::None, None), ()).with_name(name.clone()).into_future(), WATCHDOG);
        w.sh.open_gate(g);
        let r = rx.recv_timeout(WATCHDOG + Duration::from_secs(5)).ok().flatten();
        let _ = h.join();
        if visible {
            return Err(viol("C19/name-visible-before-startup", format!("lookup({name:?}) found the actor while its pre_start had not returned")));
        }
        match dup {
            Some(Err(SpawnError::NameTaken(n))) if n == name => {}
            None => return Err(Outcome::inconclusive("duplicate spawn did not return")),
            Some(other) => {
                return Err(viol("C19/duplicate-name-accepted", format!("name {name:?} is reserved by an actor that is starting up, a second spawn returned {:?}", other.map(|_| "Ok(..)"))));
            }
        }
        w.labels.insert("slow-start".into());
        r
    } else {
        block_on_for(fut, WATCHDOG)
    };
    let Some(result) = result else {
        return Err(Outcome::inconclusive("spawn did not return within the watchdog"));
    };
    match (fail, result) {
        (StartFail::PreStart, Err(SpawnError::Start(e))) if e == "pre_start failed" => {
            let log = w.sh.log_of(aid);
            if log != [Ev::PreStart] {
                return Err(viol("C19/lifecycle-order", format!("actor {aid}: pre_start failed, hooks run: {log:?}")));
            }
            w.labels.insert("start-failed".into());
            Ok(())
        }
        (StartFail::PreStart, other) => Err(viol("C19/failed-start-not-reported", format!("pre_start failed but spawn returned {:?}", other.map(|_| "Ok(..)")))),
        (_, Err(e)) => Err(viol("C19/spawn-failed", format!("spawn of actor {aid} (name {:?}) returned {e:?} although the name was free and start-up succeeds", named.then_some(&name)))),
        (f, Ok((mailbox, handle))) => {
            if named {
                *w.names_used.entry(name.clone()).or_default() += 1;
                if mailbox.name() != Some(name.as_str()) {
                    return Err(viol("C19/mailbox-name", format!("spawned as {name:?}, mailbox.name() = {:?}", mailbox.name())));
                }
            }
            w.slots[slot] = Some(Live {
                aid,
                mailbox,
                handle: Some(handle),
                exit: None,
                name: named.then_some(name),
                supervised,
                blocked: None,
                accepted: HashMap::new(),
                stop_requested: false,
                fail_accepted: false,
                stopself_accepted: false,
                post_start_fail: f == StartFail::PostStart,
                gone: Arc::new(AtomicBool::new(false)),
                frozen_handled: None,
            });
            if f == StartFail::PostStart {
                w.labels.insert("post-start-failed".into());
                w.reap(slot, group_accepted)?;
            }
            Ok(())
        }
    }
}

fn step_block(w: &mut World, slot: usize, group_accepted: &HashSet<MsgId>) -> Result<(), Fail> {
    if w.slots[slot].as_ref().unwrap().blocked.is_some() {
        return Ok(());
    }
    w.settle(slot, group_accepted)?;
    let Some(l) = w.slots[slot].as_mut() else { return Ok(()) };
    let g = w.sh.next_gate.fetch_add(1, Ordering::SeqCst);
    if g + 1 >= MAX_GATES {
        return Ok(());
    }
    w.ctrl_seq += 1;
    let id = (CTRL, w.ctrl_seq);
    if l.mailbox.send(Cast { id, act: Act::WaitGate(g as u16) }).is_err() {
        return Ok(());
    }
    l.accepted.entry(CTRL).or_default().push(id.1);
    l.blocked = Some(g);
    let end = Instant::now() + WATCHDOG;
    while !w.sh.actors[l.aid].log.lock().unwrap().contains(&Ev::Begin(id)) {
        if Instant::now() > end {
            return Err(Outcome::inconclusive("parking handler did not begin"));
        }
        std::thread::sleep(Duration::from_micros(200));
    }
    // fill the mailbox: the handler is parked, so nothing is consumed
    let mut filled = 0;
    loop {
        w.ctrl_seq += 1;
        let id = (CTRL, w.ctrl_seq);
        match l.mailbox.send(Cast { id, act: Act::Nop }) {
            Ok(()) => {
                l.accepted.entry(CTRL).or_default().push(id.1);
                filled += 1;
                if filled > 64 {
                    return Err(viol("C19/mailbox-unbounded", format!("actor {}: more than 64 messages accepted while its handler is parked", l.aid)));
                }
            }
            Err(DeliverError::Full(m)) if m.id == id => break,
            Err(DeliverError::Closed(m)) if m.id == id => {
                return Err(viol("C19/closed-without-stop", format!("actor {}: {id:?} returned Closed although nobody stopped or failed the actor (its handler is parked)", l.aid)));
            }
            Err(e) => return Err(viol("C19/wrong-message-handed-back", format!("fill {id:?}: {:?}", e.into_inner().id))),
        }
    }
    w.labels.insert("parked-with-full-mailbox".into());
    Ok(())
}

fn step_burst(w: &mut World, slot: usize, senders: &[Vec<Op>], exit: Option<&ExitRace>, calls_may_race: bool, group_accepted: &HashSet<MsgId>) -> Result<(), Fail> {
    EXIT_BEGUN.store(false, Ordering::SeqCst);
    let blocked = w.slots[slot].as_ref().unwrap().blocked.is_some();
    let exit = if blocked { None } else { exit };
    let has_cause = exit.is_some() || senders.iter().flatten().any(|o| matches!(o.act, Act::Fail | Act::StopSelf));
    let allow_calls = !has_cause || calls_may_race;
    let n = senders.len();
    let arrived = Arc::new(AtomicUsize::new(0));
    let cause = Arc::new(AtomicBool::new(false));
    let (mb, gone, aid) = {
        let l = w.slots[slot].as_ref().unwrap();
        (l.mailbox.clone(), l.gone.clone(), l.aid)
    };
    let mut hs = vec![];
    for ops in senders {
        let sender = w.new_sender();
        let ops: Vec<Op> = ops
            .iter()
            .map(|o| {
                let mut o = o.clone();
                if matches!(o.act, Act::WaitGate(_)) {
                    o.act = Act::Nop;
                }
                if o.call && !allow_calls {
                    // shape of the known finding kept out by construction: no call may be queued when the actor exits
                    o.call = false;
                }
                if !o.call && o.act == Act::NoReply {
                    o.act = Act::Nop;
                }
                o
            })
            .collect();
        let (t, g, c, a) = (Target::Direct(mb.clone()), gone.clone(), cause.clone(), arrived.clone());
        hs.push((sender, std::thread::Builder::new().name("c19send".into()).spawn(move || run_sender(t, sender, ops, g, c, a, n)).expect("spawn sender")));
    }
    // the controller's side of the race
    if let Some(x) = exit {
        std::thread::sleep(Duration::from_micros(x.after_us as u64));
        EXIT_BEGUN.store(true, Ordering::SeqCst);
        let l = w.slots[slot].as_mut().unwrap();
        match x.kind {
            ExitKind::Stop => {
                if l.mailbox.stop() {
                    l.stop_requested = true;
                } else if !cause.load(Ordering::SeqCst) && !l.mailbox.is_closed() {
                    return Err(viol("C19/stop-returned-false", format!("actor {aid}: stop() returned false although nobody had requested a stop")));
                } else {
                    l.stop_requested = true; // someone else's StopSelf won; the actor stops either way
                }
            }
            ExitKind::FailMsg | ExitKind::StopSelfMsg => {
                let end = Instant::now() + WATCHDOG;
                loop {
                    w.ctrl_seq += 1;
                    let id = (CTRL, w.ctrl_seq);
                    let act = if x.kind == ExitKind::FailMsg { Act::Fail } else { Act::StopSelf };
                    match l.mailbox.send(Cast { id, act }) {
                        Ok(()) => {
                            l.accepted.entry(CTRL).or_default().push(id.1);
                            cause.store(true, Ordering::SeqCst);
                            break;
                        }
                        Err(DeliverError::Closed(_)) => break,
                        Err(DeliverError::Full(_)) => {
                            if Instant::now() > end {
                                break;
                            }
                            std::thread::yield_now();
                        }
                    }
                }
            }
        }
    }
    // wait for the senders; meanwhile notice the exit so that pending calls can be judged
    let end = Instant::now() + WATCHDOG + Duration::from_secs(10);
    while hs.iter().any(|(_, h)| !h.is_finished()) {
        w.poll_exit(slot);
        if Instant::now() > end {
            return Err(Outcome::inconclusive("sender threads did not finish within the watchdog"));
        }
        std::thread::sleep(Duration::from_micros(300));
    }
    let mut all: Vec<Rec> = vec![];
    for (sender, h) in hs {
        let recs = h.join().map_err(|_| Outcome::inconclusive("sender thread panicked"))?;
        let l = w.slots[slot].as_mut().unwrap();
        for r in &recs {
            if r.accepted() {
                l.accepted.entry(sender).or_default().push(r.id.1);
                match r.act {
                    Act::Fail => l.fail_accepted = true,
                    Act::StopSelf => l.stopself_accepted = true,
                    _ => {}
                }
            }
        }
        all.extend(recs);
    }
    {
        let l = w.slots[slot].as_mut().unwrap();
        if cause.load(Ordering::SeqCst) {
            // controller's Fail/StopSelf message
            if let Some(x) = exit {
                match x.kind {
                    ExitKind::FailMsg => l.fail_accepted = true,
                    ExitKind::StopSelfMsg => l.stopself_accepted = true,
                    ExitKind::Stop => {}
                }
            }
        }
    }
    let exiting = {
        let l = w.slots[slot].as_ref().unwrap();
        l.stop_requested || l.fail_accepted || l.stopself_accepted
    };
    if exiting {
        if n >= 2 {
            w.exit_with_concurrent_senders = true;
        }
        w.labels.insert(format!("burst-with-exit:{}", exit.map(|x| format!("{:?}", x.kind)).unwrap_or_else(|| "message".into())));
        if allow_calls && all.iter().any(|r| r.call) {
            w.labels.insert("calls-race-with-exit".into());
        }
    } else {
        w.labels.insert(if n >= 2 { "burst-concurrent".into() } else { "burst-single".to_string() });
    }
    // judge the records
    for r in &all {
        match &r.out {
            Out::Wrong(d) => return Err(viol("C19/wrong-message-or-reply", d.clone())),
            Out::Timeout => return Err(Outcome::inconclusive("a call was not answered within the watchdog (actor still alive)")),
            Out::SendClosed | Out::CallClosed if !exiting => {
                return Err(viol("C19/closed-without-stop", format!("actor {aid}: {:?} returned Closed although nobody stopped or failed the actor", r.id)));
            }
            Out::CallOk(a) => {
                if *a != aid {
                    return Err(viol("C19/reply-from-wrong-actor", format!("call {:?} to actor {aid} answered by actor {a}", r.id)));
                }
                if matches!(r.act, Act::NoReply | Act::Fail) {
                    return Err(viol("C19/reply-without-handler-reply", format!("call {:?} ({:?}) got a reply its handler never sent", r.id, r.act)));
                }
            }
            Out::CallNoReply if !exiting && !matches!(r.act, Act::NoReply) => {
                return Err(viol("C19/call-no-reply-from-live-actor", format!("call {:?} ({:?}) to live actor {aid} returned NoReply", r.id, r.act)));
            }
            Out::CallStuck if r.while_exiting => {
                w.known_stuck_racy.get_or_insert(format!(
                    "call {:?} entered actor {aid}'s mailbox after an exit of the actor had been asked for; the actor has exited and the call future is still Pending (the request slipped in between finish()'s drain of the queue and its drop of the receiver)",
                    r.id
                ));
            }
            Out::CallStuck => {
                w.known_stuck.get_or_insert(format!(
                    "call {:?} was accepted by actor {aid}'s mailbox; the actor has exited (its ActorHandle resolved, so finish() ran and dropped the receiver) and the call future is still Pending: the request sits in the channel, which lives as long as any Mailbox does",
                    r.id
                ));
            }
            _ => {}
        }
    }
    if exiting {
        w.reap(slot, group_accepted)?;
        // replies must belong to handled messages
        let handled: HashSet<MsgId> = handled_ids(&w.sh.log_of(aid)).into_iter().collect();
        for r in &all {
            if matches!(r.out, Out::CallOk(_)) && !handled.contains(&r.id) {
                return Err(viol("C19/reply-without-handling", format!("call {:?} was answered but never handled", r.id)));
            }
            if matches!(r.out, Out::CallStuck) && handled.contains(&r.id) {
                w.known_stuck = None;
                return Err(viol("C19/handled-call-never-answered", format!("call {:?} was handled ({:?}) but its caller is still pending after the actor's exit", r.id, r.act)));
            }
        }
        Ok(())
    } else {
        w.settle(slot, group_accepted)
    }
}

fn live_member_sets(w: &World) -> (Vec<usize>, Vec<usize>) {
    // (idle member aids, parked-and-full member aids) among live members
    let mut idle = vec![];
    let mut full = vec![];
    for m in &w.members {
        if let Some(l) = w.slots.iter().flatten().find(|l| l.aid == m.aid) {
            if l.blocked.is_some() {
                full.push(l.aid);
            } else {
                idle.push(l.aid);
            }
        }
    }
    (idle, full)
}

fn settle_members(w: &mut World, group_accepted: &HashSet<MsgId>) -> Result<(), Fail> {
    let aids: Vec<usize> = w.members.iter().map(|m| m.aid).collect();
    for slot in 0..w.slots.len() {
        if w.slots[slot].as_ref().map(|l| aids.contains(&l.aid)).unwrap_or(false) {
            w.settle(slot, group_accepted)?;
        }
    }
    Ok(())
}

fn handler_of(w: &World, id: MsgId) -> Vec<usize> {
    (0..w.sh.next_aid.load(Ordering::SeqCst).min(MAX_ACTORS)).filter(|a| w.sh.actors[*a].log.lock().unwrap().contains(&Ev::Begin(id))).collect()
}

fn step_group_send(w: &mut World, n: u8, call: bool, group_accepted: &mut HashSet<MsgId>) -> Result<(), Fail> {
    settle_members(w, group_accepted)?;
    let sender = w.new_sender();
    for k in 0..n as u32 {
        let (idle, full) = live_member_sets(w);
        let id = (sender, k);
        group_accepted.insert(id);
        let res: Result<Option<usize>, &'static str> = if call {
            match block_on_for(w.g_call.call(Ask { id, act: Act::Nop }), WATCHDOG) {
                None => return Err(Outcome::inconclusive("group call not answered within the watchdog")),
                Some(Ok(a)) if a.id == id => Ok(Some(a.aid)),
                Some(Ok(a)) => return Err(viol("C19/wrong-message-or-reply", format!("group call {id:?} got the reply for {:?}", a.id))),
                Some(Err(CallError::Full(m))) if m.id == id => Err("Full"),
                Some(Err(CallError::Closed(m))) if m.id == id => Err("Closed"),
                Some(Err(CallError::NoReply)) => Err("NoReply"),
                Some(Err(_)) => return Err(viol("C19/wrong-message-or-reply", format!("group call {id:?}: another request was handed back"))),
            }
        } else {
            match w.g_cast.send(Cast { id, act: Act::Nop }) {
                Ok(()) => Ok(None),
                Err(DeliverError::Full(m)) if m.id == id => Err("Full"),
                Err(DeliverError::Closed(m)) if m.id == id => Err("Closed"),
                Err(e) => return Err(viol("C19/wrong-message-or-reply", format!("group send {id:?} handed back {:?}", e.into_inner().id))),
            }
        };
        let expect = if !idle.is_empty() {
            "Ok"
        } else if !full.is_empty() {
            "Full"
        } else {
            "Closed"
        };
        let got = match &res {
            Ok(_) => "Ok",
            Err(e) => e,
        };
        if got != expect {
            group_accepted.remove(&id);
            return Err(viol(
                &format!("C19/group-routing/expected-{expect}-got-{got}"),
                format!("group {} {id:?}: live idle members {idle:?}, live members parked with a full mailbox {full:?}: expected {expect}, got {got}", if call { "call" } else { "send" }),
            ));
        }
        if res.is_err() {
            group_accepted.remove(&id);
        }
        settle_members(w, group_accepted)?;
        let by = handler_of(w, id);
        match (&res, by.as_slice()) {
            (Err(_), []) => {}
            (Err(_), _) => return Err(viol("C19/rejected-message-handled", format!("group message {id:?} was handed back ({got}) and yet handled by {by:?}"))),
            (Ok(replier), [a]) => {
                if !idle.contains(a) {
                    return Err(viol("C19/group-routed-to-non-member", format!("group message {id:?} handled by actor {a}; live non-full members were {idle:?}")));
                }
                if let Some(r) = replier {
                    if r != a {
                        return Err(viol("C19/reply-from-wrong-actor", format!("group call {id:?} handled by {a}, answered by {r}")));
                    }
                }
            }
            (Ok(_), other) => return Err(viol("C19/group-not-exactly-one", format!("group message {id:?} was accepted and handled by {other:?} (expected exactly one member of {idle:?})"))),
        }
        w.labels.insert(format!("group-send:{expect}"));
    }
    Ok(())
}

fn step_group_burst(w: &mut World, senders: &[Vec<Op>], group_accepted: &mut HashSet<MsgId>) -> Result<(), Fail> {
    EXIT_BEGUN.store(false, Ordering::SeqCst);
    settle_members(w, group_accepted)?;
    let (idle, full) = live_member_sets(w);
    let n = senders.len();
    let arrived = Arc::new(AtomicUsize::new(0));
    let never = Arc::new(AtomicBool::new(false));
    let mut hs = vec![];
    for ops in senders {
        let sender = w.new_sender();
        let ops: Vec<Op> = ops
            .iter()
            .map(|o| {
                let mut o = o.clone();
                // group bursts never end an actor (exits are exercised by direct bursts)
                if matches!(o.act, Act::Fail | Act::StopSelf | Act::WaitGate(_)) || (!o.call && o.act == Act::NoReply) {
                    o.act = Act::Nop;
                }
                o
            })
            .collect();
        // every message is registered as "may be handled by a member" before it is sent
        for k in 0..ops.len() {
            group_accepted.insert((sender, k as u32));
        }
        let (t, g, c, a) = (Target::Group(w.g_cast.clone(), w.g_call.clone()), never.clone(), never.clone(), arrived.clone());
        hs.push(std::thread::Builder::new().name("c19gsend".into()).spawn(move || run_sender(t, sender, ops, g, c, a, n)).expect("spawn sender"));
    }
    let mut all = vec![];
    for h in hs {
        all.extend(h.join().map_err(|_| Outcome::inconclusive("group sender panicked"))?);
    }
    settle_members(w, group_accepted)?;
    for r in &all {
        let by = handler_of(w, r.id);
        match &r.out {
            Out::Wrong(d) => return Err(viol("C19/wrong-message-or-reply", d.clone())),
            Out::Timeout | Out::CallStuck => return Err(Outcome::inconclusive("a group call was not answered within the watchdog")),
            Out::SendOk | Out::CallOk(_) | Out::CallNoReply => {
                if by.len() != 1 {
                    return Err(viol("C19/group-not-exactly-one", format!("group message {:?} was accepted ({:?}) and handled by {by:?}; idle members {idle:?}", r.id, r.out)));
                }
                if !idle.contains(&by[0]) {
                    return Err(viol("C19/group-routed-to-non-member", format!("group message {:?} handled by actor {}; live non-full members were {idle:?}", r.id, by[0])));
                }
                if let Out::CallOk(a) = r.out {
                    if a != by[0] {
                        return Err(viol("C19/reply-from-wrong-actor", format!("group call {:?} handled by {}, answered by {a}", r.id, by[0])));
                    }
                }
                if r.out == Out::CallNoReply && r.act != Act::NoReply {
                    return Err(viol("C19/call-no-reply-from-live-actor", format!("group call {:?} ({:?}) returned NoReply", r.id, r.act)));
                }
            }
            Out::SendFull | Out::CallFull | Out::SendClosed | Out::CallClosed => {
                group_accepted.remove(&r.id);
                if !by.is_empty() {
                    return Err(viol("C19/rejected-message-handled", format!("group message {:?} was handed back ({:?}) and yet handled by {by:?}", r.id, r.out)));
                }
                if matches!(r.out, Out::SendClosed | Out::CallClosed) && (!idle.is_empty() || !full.is_empty()) {
                    return Err(viol("C19/group-closed-with-live-member", format!("group message {:?} came back Closed although live members exist (idle {idle:?}, full {full:?})", r.id)));
                }
                if matches!(r.out, Out::SendFull | Out::CallFull) && idle.is_empty() && full.is_empty() {
                    return Err(viol("C19/group-full-without-member", format!("group message {:?} came back Full although the group has no live member", r.id)));
                }
            }
        }
    }
    w.labels.insert(if n >= 2 { "group-burst-concurrent".into() } else { "group-burst-single".to_string() });
    Ok(())
}

// ------------------------------------------------------------------------------------------------
// generator

fn act_strategy() -> impl Strategy<Value = Act> + Clone {
    prop_oneof![
        6 => Just(Act::Nop),
        2 => (1u8..=4).prop_map(Act::Yield),
        2 => (0u8..=20).prop_map(Act::Sleep),
        1 => Just(Act::NoReply),
    ]
}

fn exit_act_strategy() -> impl Strategy<Value = Act> + Clone {
    prop_oneof![12 => act_strategy(), 1 => Just(Act::Fail), 1 => Just(Act::StopSelf)]
}

fn senders_of<S: Strategy<Value = Act> + Clone>(act: S) -> impl Strategy<Value = Vec<Vec<Op>>> + Clone {
    vec(vec((prop_oneof![3 => Just(false), 2 => Just(true)], act, any::<bool>()).prop_map(|(call, act, broker)| Op { call, act, broker }), 1..=10), 1..=4)
}

fn step_strategy() -> impl Strategy<Value = Step> + Clone {
    prop_oneof![
        5 => (0u8..4, prop_oneof![2 => Just(true), 1 => Just(false)], 1u8..=8, prop_oneof![8 => Just(StartFail::None), 1 => Just(StartFail::PreStart), 1 => Just(StartFail::PostStart)], prop_oneof![2 => Just(false), 1 => Just(true)], prop_oneof![3 => Just(false), 1 => Just(true)])
            .prop_map(|(slot, named, cap, fail, supervised, slow)| Step::Spawn { slot, named, cap, fail, supervised, slow }),
        3 => (any::<u16>(), senders_of(act_strategy())).prop_map(|(slot, senders)| Step::Burst { slot, senders, exit: None, calls_may_race: false }),
        4 => (
            any::<u16>(),
            senders_of(exit_act_strategy()),
            prop_oneof![1 => Just(None), 4 => (prop_oneof![3 => Just(ExitKind::Stop), 1 => Just(ExitKind::FailMsg), 1 => Just(ExitKind::StopSelfMsg)], prop_oneof![1 => Just(0u16), 2 => 0u16..400, 1 => 400u16..3000]).prop_map(|(kind, after_us)| Some(ExitRace { kind, after_us }))],
            prop_oneof![5 => Just(false), 1 => Just(true)],
        )
            .prop_map(|(slot, senders, exit, calls_may_race)| Step::Burst { slot, senders, exit, calls_may_race }),
        1 => any::<u16>().prop_map(|slot| Step::Stop { slot }),
        1 => any::<u16>().prop_map(|slot| Step::Block { slot }),
        1 => any::<u16>().prop_map(|slot| Step::Unblock { slot }),
        4 => any::<u16>().prop_map(|slot| Step::GroupJoin { slot }),
        1 => any::<u16>().prop_map(|member| Step::GroupLeave { member }),
        3 => (1u8..=4, any::<bool>()).prop_map(|(n, call)| Step::GroupSend { n, call }),
        2 => senders_of(act_strategy()).prop_map(|senders| Step::GroupBurst { senders }),
    ]
}

fn case_strategy() -> impl Strategy<Value = ActorCase> + Clone {
    (1u8..=3, 0u8..=2, vec(step_strategy(), 2..=14)).prop_map(|(workers, respawns, mut steps)| {
        // programs start by creating actors, otherwise most steps would find nothing to act on
        steps.insert(0, Step::Spawn { slot: 0, named: true, cap: 2 + workers, fail: StartFail::None, supervised: respawns > 0, slow: false });
        ActorCase { workers, respawns, steps }
    })
}

fn main() {
    let mut s = Session::new();
    let mut p = Part::new(
        "C19",
        "programs",
        "case = cluster(1-3 workers) x program of 3-15 steps run by a controller thread: spawn (4 name slots; named/unnamed, capacity 1-8, pre_start/post_start failure, supervised, \
         slow start-up parked in pre_start while lookup and a duplicate spawn are tried), burst (1-4 threads x 1-10 send/call ops through mailbox or broker with handler \
         acts nop/yield/sleep/no-reply/fail/stop-self, optionally racing with a controller stop()/fail/stop-self after 0-3 ms), stop, park-in-handler-and-fill-mailbox, unpark, \
         process-group join/leave, exact sequential group send/call, concurrent group burst; a supervisor respawns failed/terminated named children under the same name (budget 0-2). \
         Calls are kept out of bursts that can end the actor unless calls_may_race (1 in 6; that shape is the known finding). \
         Non-trivial = a burst with >= 2 sender threads during which the actor was stopped or failed, or a name used by >= 2 successive actors; distinct = distinct serialised case.",
    );
    // a process abort (double panic in a Drop, poisoned lock) while a case runs is a verdict about that case
    p.crash_guard = true;
    p.quick_cases = 750;
    p.thorough_cases = 30000;
    p.replay_repeats = 20;
    p.max_shrink_iters = 60;
    p.assumptions = vec![
        "cross-thread acceptance order is not observable: FIFO is checked per sender (every sender's handled messages are a prefix of its accepted ones, in order)",
        "flume and futures-channel are trusted",
    ];
    let op = |call, act| Op { call, act, broker: false };
    p.regressions = vec![
        (
            // known finding: two calls into a slow handler, then stop(): the queued one is never answered
            "call-queued-behind-slow-handler-then-stop",
            ActorCase {
                workers: 1,
                respawns: 0,
                steps: vec![
                    Step::Spawn { slot: 0, named: false, cap: 4, fail: StartFail::None, supervised: false, slow: false },
                    Step::Burst {
                        slot: 0,
                        senders: vec![vec![op(true, Act::Sleep(200))], vec![op(false, Act::Sleep(200)), op(true, Act::Nop)], vec![op(true, Act::Sleep(100))]],
                        exit: Some(ExitRace { kind: ExitKind::Stop, after_us: 3000 }),
                        calls_may_race: true,
                    },
                ],
            },
        ),
        (
            "named-lifecycle-reuse-and-group",
            ActorCase {
                workers: 2,
                respawns: 1,
                steps: vec![
                    Step::Spawn { slot: 0, named: true, cap: 2, fail: StartFail::None, supervised: true, slow: true },
                    Step::Spawn { slot: 1, named: true, cap: 1, fail: StartFail::None, supervised: false, slow: false },
                    Step::Spawn { slot: 0, named: true, cap: 2, fail: StartFail::None, supervised: false, slow: false },
                    Step::Spawn { slot: 2, named: true, cap: 3, fail: StartFail::PreStart, supervised: false, slow: true },
                    Step::Spawn { slot: 2, named: true, cap: 3, fail: StartFail::PostStart, supervised: true, slow: false },
                    Step::GroupJoin { slot: 0 },
                    Step::GroupJoin { slot: 40000 },
                    Step::GroupSend { n: 3, call: true },
                    Step::Block { slot: 0 },
                    Step::GroupSend { n: 2, call: false },
                    Step::GroupBurst { senders: vec![vec![op(false, Act::Nop), op(true, Act::Yield(2))], vec![op(true, Act::NoReply), op(false, Act::Sleep(3))]] },
                    Step::Burst { slot: 0, senders: vec![vec![op(false, Act::Nop), op(false, Act::Fail)], vec![op(false, Act::Sleep(5)), op(false, Act::Nop)]], exit: None, calls_may_race: false },
                    Step::Stop { slot: 0 },
                    Step::GroupSend { n: 2, call: true },
                ],
            },
        ),
    ];
    if s.args.shard.0 != 0 {
        // the fixed cases run once per check, in shard 0
        p.regressions.clear();
    }
    // safety valve for broken trees: after three consecutive hung cases the rest is reported
    // inconclusive at once (the run then exits 2) instead of each waiting for its watchdogs
    static HUNG: std::sync::atomic::AtomicU32 = std::sync::atomic::AtomicU32::new(0);
    s.run_part(p, case_strategy(), |c| {
        if HUNG.load(Ordering::SeqCst) >= 3 {
            return Outcome::inconclusive("circuit breaker: three consecutive cases hung");
        }
        let o = run_case(c);
        match &o {
            Outcome::Inconclusive { why } => {
                eprintln!("C19: inconclusive case: {why}");
                HUNG.fetch_add(1, Ordering::SeqCst);
            }
            _ => HUNG.store(0, Ordering::SeqCst),
        }
        o
    });
    s.finish();
}
