use compio_io::AsyncRead;
use compio_net::{TcpListener, TcpStream};
use compio_runtime::{CancelToken, FutureExt as _};
fn main() {
    let rt = compio_runtime::Runtime::new().unwrap();
    rt.block_on(async {
        let l = TcpListener::bind("127.0.0.1:0").await.unwrap();
        let addr = l.local_addr().unwrap();
        let c = TcpStream::connect(addr).await.unwrap();
        let (mut srv, _) = l.accept().await.unwrap();
        let ct = CancelToken::new();
        let ct2 = ct.clone();
        let h = compio_runtime::spawn(async move { srv.read(Vec::with_capacity(10)).with_cancel(ct2).await.0.map(|_| ()) });
        ct.cancel();
        println!("cancelled, waiting");
        println!("after cancel: {:?}", h.await.unwrap());
        drop(c);
    });
}
