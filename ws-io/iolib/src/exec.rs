//! Minimal executors: the futures of compio-io helpers over in-memory mocks complete without a
//! runtime, so a manual poll loop with a no-op waker is enough.
use std::{
    future::Future,
    pin::pin,
    sync::{
        atomic::{AtomicUsize, Ordering},
        Arc,
    },
    task::{Context, Poll, Wake, Waker},
};

/// Poll `f` to completion with a no-op waker.  A future over the C11 mocks never returns
/// `Pending`; if it does, that is reported by a panic (caught by the engine as a violation).
pub fn block_on<F: Future>(f: F) -> F::Output {
    let mut f = pin!(f);
    let mut cx = Context::from_waker(Waker::noop());
    for _ in 0..64 {
        if let Poll::Ready(v) = f.as_mut().poll(&mut cx) {
            return v;
        }
    }
    panic!("future over an always-ready in-memory mock stayed Pending");
}

/// A waker that counts how often it was woken ("task" of the C12 poll flavour).
pub struct CountingWake(pub AtomicUsize);

impl Wake for CountingWake {
    fn wake(self: Arc<Self>) {
        self.0.fetch_add(1, Ordering::SeqCst);
    }

    fn wake_by_ref(self: &Arc<Self>) {
        self.0.fetch_add(1, Ordering::SeqCst);
    }
}

pub struct Task {
    pub flag: Arc<CountingWake>,
    pub waker: Waker,
}

impl Task {
    pub fn new() -> Self {
        let flag = Arc::new(CountingWake(AtomicUsize::new(0)));
        let waker = Waker::from(flag.clone());
        Task { flag, waker }
    }

    pub fn wakes(&self) -> usize {
        self.flag.0.load(Ordering::SeqCst)
    }
}

impl Default for Task {
    fn default() -> Self {
        Self::new()
    }
}
