//! The same program executed through compio-fs on a compio runtime with the selected driver.
use std::{
    os::unix::fs::{MetadataExt, PermissionsExt},
    path::Path,
    time::Duration,
};

use compio_buf::{BufResult, IntoInner, IoBufExt, IoBufMutExt};
use compio_driver::{DriverType, ProactorBuilder};
use compio_fs::{pipe, File, OpenOptions};
use compio_io::{AsyncRead, AsyncReadAt, AsyncWrite, AsyncWriteAt};
use compio_runtime::{time::timeout, RuntimeBuilder};
use vcore::mono_ix;

use crate::{bufs::*, prog::*};

/// generous: nothing generated can block by construction; fsync on a loaded disk is the slowest op
const WATCHDOG: Duration = Duration::from_secs(40);

fn meta_obs(m: &compio_fs::Metadata) -> MetaObs {
    use std::os::unix::fs::FileTypeExt;
    let ft = m.file_type();
    let name = if ft.is_dir() {
        "dir"
    } else if ft.is_file() {
        "file"
    } else if ft.is_symlink() {
        "symlink"
    } else if ft.is_fifo() {
        "fifo"
    } else {
        "other"
    };
    MetaObs { ftype: name.into(), len: if ft.is_dir() { 0 } else { m.len() }, mode: m.permissions().mode() & 0o7777, nlink: m.nlink() }
}

/// Run `$call` (an expression producing a future of `BufResult<usize, B>`) with the buffer described
/// by `$spec` bound to `$b`; yields `Option<(Res, BufObs)>` (None = watchdog).
macro_rules! with_buf {
    ($spec:expr, |$b:ident| $call:expr) => {{
        let spec: &BufSpec = $spec;
        match &spec.kind {
            BufKind::Vec => {
                let $b = mk_vec(spec.len as usize, spec.spare as usize, spec.seed);
                match timeout(WATCHDOG, $call).await {
                    Ok(BufResult(r, out)) => Some((conv(r), obs_vec(&out))),
                    Err(_) => None,
                }
            }
            BufKind::Array => {
                let $b = mk_arr(spec.seed);
                match timeout(WATCHDOG, $call).await {
                    Ok(BufResult(r, out)) => Some((conv(r), obs_arr(&out))),
                    Err(_) => None,
                }
            }
            BufKind::ArrayVec => {
                let $b = mk_arrayvec(spec.len as usize, spec.seed);
                match timeout(WATCHDOG, $call).await {
                    Ok(BufResult(r, out)) => Some((conv(r), obs_arrayvec(&out))),
                    Err(_) => None,
                }
            }
            BufKind::Slice { .. } => {
                let g = geom(spec);
                let v = mk_vec(spec.len as usize, spec.spare as usize, spec.seed);
                let $b = match g.bounds.1 {
                    Some(e) => v.slice(g.bounds.0..e),
                    None => v.slice(g.bounds.0..),
                };
                match timeout(WATCHDOG, $call).await {
                    Ok(BufResult(r, out)) => Some((conv(r), obs_vec(&out.into_inner()))),
                    Err(_) => None,
                }
            }
            BufKind::Uninit => {
                let $b = mk_vec(spec.len as usize, spec.spare as usize, spec.seed).uninit();
                match timeout(WATCHDOG, $call).await {
                    Ok(BufResult(r, out)) => Some((conv(r), obs_vec(&out.into_inner()))),
                    Err(_) => None,
                }
            }
        }
    }};
}

/// Same for vectored buffers; yields `Option<(Res, Vec<BufObs>)>`.
macro_rules! with_vbuf {
    ($spec:expr, |$b:ident| $call:expr) => {{
        let spec: &VSpec = $spec;
        let mut members = mk_members(spec);
        match spec.cont {
            VCont::VecOfVec => {
                let $b = members;
                match timeout(WATCHDOG, $call).await {
                    Ok(BufResult(r, out)) => Some((conv(r), out.iter().map(obs_vec).collect::<Vec<_>>())),
                    Err(_) => None,
                }
            }
            VCont::Arr2 => {
                let m1 = members.pop().unwrap();
                let m0 = members.pop().unwrap();
                let $b = [m0, m1];
                match timeout(WATCHDOG, $call).await {
                    Ok(BufResult(r, out)) => Some((conv(r), out.iter().map(obs_vec).collect::<Vec<_>>())),
                    Err(_) => None,
                }
            }
            VCont::Arr3 => {
                let m2 = members.pop().unwrap();
                let m1 = members.pop().unwrap();
                let m0 = members.pop().unwrap();
                let $b = [m0, m1, m2];
                match timeout(WATCHDOG, $call).await {
                    Ok(BufResult(r, out)) => Some((conv(r), out.iter().map(obs_vec).collect::<Vec<_>>())),
                    Err(_) => None,
                }
            }
        }
    }};
}

macro_rules! tmo {
    ($fut:expr) => {
        match timeout(WATCHDOG, $fut).await {
            Ok(v) => v,
            Err(_) => return HUNG,
        }
    };
}

struct CPipe {
    rx: Option<pipe::Receiver>,
    tx: Option<pipe::Sender>,
    book: PipeBook,
}

const HUNG: Obs = Obs::Hung;

fn single(x: Option<(Res, BufObs)>) -> Obs {
    match x {
        Some((res, b)) => Obs::Op { res, bufs: vec![b], meta: None, data: None },
        None => Obs::Hung,
    }
}

fn multi(x: Option<(Res, Vec<BufObs>)>) -> Obs {
    match x {
        Some((res, bufs)) => Obs::Op { res, bufs, meta: None, data: None },
        None => Obs::Hung,
    }
}

async fn step_once(step: &Step, root: &Path, files: &mut Vec<File>, pipes: &mut Vec<CPipe>) -> Obs {
    let p = |i: u8| root.join(PATHS[i as usize % PATHS.len()]);
    match step {
        Step::Open { path, opts } => {
            if files.len() >= MAX_FILES {
                return Obs::Skip("file table full");
            }
            let r = match opts.via {
                Via::FileOpen => tmo!(File::open(p(*path))),
                Via::FileCreate => tmo!(File::create(p(*path))),
                Via::Options => {
                    let mut o = OpenOptions::new();
                    o.read(opts.read).write(opts.write).create(opts.create).truncate(opts.truncate).create_new(opts.create_new);
                    if opts.custom != Custom::None {
                        o.custom_flags(opts.custom.flags());
                    }
                    if let Some(m) = opts.mode {
                        o.mode(m as u32);
                    }
                    tmo!(o.open(p(*path)))
                }
            };
            match r {
                Ok(f) => {
                    files.push(f);
                    Obs::res(Ok(0))
                }
                Err(e) => Obs::res(Err(conv_err(&e))),
            }
        }
        Step::Close { h } => {
            if files.is_empty() {
                return Obs::Skip("no open file");
            }
            let f = files.remove(mono_ix(*h, files.len()));
            Obs::res(conv_unit(tmo!(f.close())))
        }
        Step::ReadAt { h, buf, pos } => {
            if files.is_empty() {
                return Obs::Skip("no open file");
            }
            let f = &files[mono_ix(*h, files.len())];
            single(with_buf!(buf, |b| f.read_at(b, pos.value())))
        }
        Step::ReadVAt { h, bufs, pos } => {
            if files.is_empty() {
                return Obs::Skip("no open file");
            }
            let f = &files[mono_ix(*h, files.len())];
            multi(with_vbuf!(bufs, |b| f.read_vectored_at(b, pos.value())))
        }
        Step::WriteAt { h, buf, pos } => {
            if files.is_empty() {
                return Obs::Skip("no open file");
            }
            let mut f = &files[mono_ix(*h, files.len())];
            single(with_buf!(buf, |b| f.write_at(b, pos.value())))
        }
        Step::WriteVAt { h, bufs, pos } => {
            if files.is_empty() {
                return Obs::Skip("no open file");
            }
            let mut f = &files[mono_ix(*h, files.len())];
            multi(with_vbuf!(bufs, |b| f.write_vectored_at(b, pos.value())))
        }
        Step::SetLen { h, size } => {
            if files.is_empty() {
                return Obs::Skip("no open file");
            }
            let f = &files[mono_ix(*h, files.len())];
            Obs::res(conv_unit(tmo!(f.set_len(size.value()))))
        }
        Step::Sync { h, data } => {
            if files.is_empty() {
                return Obs::Skip("no open file");
            }
            let f = &files[mono_ix(*h, files.len())];
            Obs::res(conv_unit(if *data { tmo!(f.sync_data()) } else { tmo!(f.sync_all()) }))
        }
        Step::Meta { h } => {
            if files.is_empty() {
                return Obs::Skip("no open file");
            }
            let f = &files[mono_ix(*h, files.len())];
            match tmo!(f.metadata()) {
                Ok(m) => Obs::Op { res: Ok(0), bufs: vec![], meta: Some(meta_obs(&m)), data: None },
                Err(e) => Obs::res(Err(conv_err(&e))),
            }
        }
        Step::SetPerm { h, mode } => {
            if files.is_empty() {
                return Obs::Skip("no open file");
            }
            let f = &files[mono_ix(*h, files.len())];
            Obs::res(conv_unit(tmo!(f.set_permissions(compio_fs::Permissions::from_mode(*mode as u32)))))
        }
        Step::PathMeta { path, follow } => {
            let r = if *follow { tmo!(compio_fs::metadata(p(*path))) } else { tmo!(compio_fs::symlink_metadata(p(*path))) };
            match r {
                Ok(m) => Obs::Op { res: Ok(0), bufs: vec![], meta: Some(meta_obs(&m)), data: None },
                Err(e) => Obs::res(Err(conv_err(&e))),
            }
        }
        Step::PathSetPerm { path, mode } => {
            Obs::res(conv_unit(tmo!(compio_fs::set_permissions(p(*path), compio_fs::Permissions::from_mode(*mode as u32)))))
        }
        Step::CreateDir { path } => Obs::res(conv_unit(tmo!(compio_fs::create_dir(p(*path))))),
        Step::CreateDirAll { path } => Obs::res(conv_unit(tmo!(compio_fs::create_dir_all(p(*path))))),
        Step::RemoveFile { path } => Obs::res(conv_unit(tmo!(compio_fs::remove_file(p(*path))))),
        Step::RemoveDir { path } => Obs::res(conv_unit(tmo!(compio_fs::remove_dir(p(*path))))),
        Step::Rename { from, to } => Obs::res(conv_unit(tmo!(compio_fs::rename(p(*from), p(*to))))),
        Step::HardLink { from, to } => Obs::res(conv_unit(tmo!(compio_fs::hard_link(p(*from), p(*to))))),
        Step::Symlink { target, link } => Obs::res(conv_unit(tmo!(compio_fs::symlink(TARGETS[*target as usize % TARGETS.len()], p(*link))))),
        Step::FsRead { path } => match tmo!(compio_fs::read(p(*path))) {
            Ok(d) => Obs::Op { res: Ok(d.len() as u64), bufs: vec![], meta: None, data: Some(d) },
            Err(e) => Obs::res(Err(conv_err(&e))),
        },
        Step::FsWrite { path, buf } => {
            let path = p(*path);
            match with_buf!(buf, |b| compio_fs::write(&path, b)) {
                Some((res, b)) => Obs::Op { res: res.map(|_| 0), bufs: vec![b], meta: None, data: None },
                None => Obs::Hung,
            }
        }
        Step::PipeNew => {
            if pipes.len() >= MAX_PIPES {
                return Obs::Skip("pipe table full");
            }
            match tmo!(pipe::anonymous()) {
                Ok((rx, tx)) => {
                    pipes.push(CPipe { rx: Some(rx), tx: Some(tx), book: PipeBook::default() });
                    Obs::res(Ok(0))
                }
                Err(e) => Obs::res(Err(conv_err(&e))),
            }
        }
        Step::PipeWrite { p: pi, buf } => {
            if pipes.is_empty() {
                return Obs::Skip("no pipe");
            }
            let i = mono_ix(*pi, pipes.len());
            let pp = &mut pipes[i];
            let g = geom(buf);
            let Some(tx) = &pp.tx else { return Obs::Skip("sender closed") };
            if pp.rx.is_some() && !pp.book.can_write(g.vis) {
                return Obs::Skip("pipe write could block");
            }
            let mut tx = tx;
            let o = single(with_buf!(buf, |b| tx.write(b)));
            if let Obs::Op { res: Ok(n), .. } = &o {
                pp.book.wrote(*n as usize);
            }
            o
        }
        Step::PipeWriteV { p: pi, bufs } => {
            if pipes.is_empty() {
                return Obs::Skip("no pipe");
            }
            let i = mono_ix(*pi, pipes.len());
            let pp = &mut pipes[i];
            let Some(tx) = &pp.tx else { return Obs::Skip("sender closed") };
            if pp.rx.is_some() && !pp.book.can_write(crate::refexec::vtotal(bufs)) {
                return Obs::Skip("pipe write could block");
            }
            let mut tx = tx;
            let o = multi(with_vbuf!(bufs, |b| tx.write_vectored(b)));
            if let Obs::Op { res: Ok(n), .. } = &o {
                pp.book.wrote(*n as usize);
            }
            o
        }
        Step::PipeRead { p: pi, buf } => {
            if pipes.is_empty() {
                return Obs::Skip("no pipe");
            }
            let i = mono_ix(*pi, pipes.len());
            let pp = &mut pipes[i];
            let Some(rx) = &pp.rx else { return Obs::Skip("receiver closed") };
            if pp.tx.is_some() && pp.book.bytes == 0 {
                return Obs::Skip("pipe read would block");
            }
            let mut rx = rx;
            let o = single(with_buf!(buf, |b| rx.read(b)));
            if let Obs::Op { res: Ok(n), .. } = &o {
                pp.book.read(*n as usize);
            }
            o
        }
        Step::PipeReadV { p: pi, bufs } => {
            if pipes.is_empty() {
                return Obs::Skip("no pipe");
            }
            let i = mono_ix(*pi, pipes.len());
            let pp = &mut pipes[i];
            let Some(rx) = &pp.rx else { return Obs::Skip("receiver closed") };
            if pp.tx.is_some() && pp.book.bytes == 0 {
                return Obs::Skip("pipe read would block");
            }
            let mut rx = rx;
            let o = multi(with_vbuf!(bufs, |b| rx.read_vectored(b)));
            if let Obs::Op { res: Ok(n), .. } = &o {
                pp.book.read(*n as usize);
            }
            o
        }
        Step::PipeCloseTx { p: pi } => {
            if pipes.is_empty() {
                return Obs::Skip("no pipe");
            }
            let i = mono_ix(*pi, pipes.len());
            match pipes[i].tx.take() {
                None => Obs::Skip("sender closed"),
                Some(tx) => Obs::res(conv_unit(tmo!(tx.close()))),
            }
        }
        Step::PipeCloseRx { p: pi } => {
            if pipes.is_empty() {
                return Obs::Skip("no pipe");
            }
            let i = mono_ix(*pi, pipes.len());
            match pipes[i].rx.take() {
                None => Obs::Skip("receiver closed"),
                Some(rx) => Obs::res(conv_unit(tmo!(rx.close()))),
            }
        }
    }
}

pub fn run_compio(prog: &Prog, root: &Path, driver: DriverType) -> Result<Vec<Obs>, String> {
    let mut pb = ProactorBuilder::new();
    pb.driver_type(driver);
    if prog.small_queue {
        pb.capacity(4);
    }
    let rt = RuntimeBuilder::new().with_proactor(pb).build().map_err(|e| format!("runtime build ({driver:?}): {e}"))?;
    if rt.driver_type() != driver {
        return Err(format!("asked for {driver:?}, got {:?}", rt.driver_type()));
    }
    let out = rt.block_on(async {
        let mut files: Vec<File> = vec![];
        let mut pipes: Vec<CPipe> = vec![];
        let mut out = vec![];
        for step in &prog.steps {
            let o = step_once(step, root, &mut files, &mut pipes).await;
            let hung = o == Obs::Hung;
            out.push(o);
            if hung {
                break;
            }
        }
        // orderly shutdown: close what is still open (results not part of the comparison)
        for f in files.drain(..) {
            let _ = timeout(WATCHDOG, f.close()).await;
        }
        for p in pipes.drain(..) {
            if let Some(tx) = p.tx {
                let _ = timeout(WATCHDOG, tx.close()).await;
            }
            if let Some(rx) = p.rx {
                let _ = timeout(WATCHDOG, rx.close()).await;
            }
        }
        out
    });
    drop(rt);
    Ok(out)
}
