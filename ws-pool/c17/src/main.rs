//! C17 — the blocking pool is bounded and loses nothing (DESIGN.md §3 C17).
//!
//! Two parts over the real `compio_driver::AsyncifyPool`:
//!  * `direct`   — 1–6 OS threads call `AsyncifyPool::dispatch` themselves (phases of jobs,
//!                 generated policy for a handed-back closure, generated gaps between phases,
//!                 including "wait until every pool worker has retired");
//!  * `runtimes` — 1–3 compio runtimes (io_uring or polling driver) share one pool through
//!                 `ProactorBuilder::reuse_thread_pool` and submit `Asyncify` ops / `spawn_blocking`.
//!
//!  * `dispatcher` — a real `Dispatcher` (Create-mode pool limit): blocking jobs through
//!                 `dispatch_blocking` and through `spawn_blocking` in dispatched tasks must share one bound.
//!
//! All verdicts are counters, gauges and OS facts (which threads exist); time is only used for
//! watchdogs, and a watchdog expiry is `Inconclusive`.
mod direct;
mod disp;
mod rt;

use std::{
    cell::Cell,
    collections::HashMap,
    sync::{
        atomic::{AtomicI32, AtomicU32, AtomicUsize, Ordering},
        mpsc, Arc, Mutex,
    },
    thread::ThreadId,
    time::{Duration, Instant},
};

use vcore::Session;

pub const PANIC_MARK: &str = "verif-job-panic";

/// Name of every harness thread that calls into the pool.  Threads created by the pool inherit the
/// `comm` of the thread that spawned them (Linux copies it on `clone`), so
/// "tasks named DISP minus my own dispatcher threads" is the number of live pool workers.
pub const DISP: &str = "c17disp";

pub struct JobSt {
    pub exec: AtomicU32,
    pub dropped: AtomicU32,
}

pub struct Shared {
    pub jobs: Vec<JobSt>,
    pub running: AtomicI32,
    pub max_running: AtomicI32,
    pub workers: Mutex<HashMap<ThreadId, u32>>,
    pub drop_tx: Mutex<mpsc::Sender<usize>>,
}

impl Shared {
    pub fn new(n: usize) -> (Arc<Self>, mpsc::Receiver<usize>) {
        let (tx, rx) = mpsc::channel();
        (
            Arc::new(Shared {
                jobs: (0..n).map(|_| JobSt { exec: AtomicU32::new(0), dropped: AtomicU32::new(0) }).collect(),
                running: AtomicI32::new(0),
                max_running: AtomicI32::new(0),
                workers: Mutex::new(HashMap::new()),
                drop_tx: Mutex::new(tx),
            }),
            rx,
        )
    }
}

thread_local! {
    /// set while a dispatcher thread runs a handed-back closure itself (not a pool thread)
    pub static INLINE: Cell<bool> = const { Cell::new(false) };
}

/// Lives inside every job closure: its `Drop` is the "closure destroyed" event (after the run, during
/// unwinding, or when the closure is dropped without ever running).
pub struct Token {
    pub sh: Arc<Shared>,
    pub id: usize,
    tx: mpsc::Sender<usize>,
}

impl Token {
    pub fn new(sh: &Arc<Shared>, id: usize) -> Self {
        let tx = sh.drop_tx.lock().unwrap().clone();
        Token { sh: sh.clone(), id, tx }
    }
}

impl Drop for Token {
    fn drop(&mut self) {
        self.sh.jobs[self.id].dropped.fetch_add(1, Ordering::SeqCst);
        let _ = self.tx.send(self.id);
    }
}

struct RunGuard<'a>(&'a Shared, bool);
impl Drop for RunGuard<'_> {
    fn drop(&mut self) {
        if self.1 {
            self.0.running.fetch_sub(1, Ordering::SeqCst);
        }
    }
}

/// The instrumented body of every job: execution counter, gauge of concurrently running pool jobs.
pub fn job_body(sh: &Shared, id: usize, dur_us: u32, panic_after: bool) {
    sh.jobs[id].exec.fetch_add(1, Ordering::SeqCst);
    let pooled = !INLINE.with(|c| c.get());
    if pooled {
        let g = sh.running.fetch_add(1, Ordering::SeqCst) + 1;
        sh.max_running.fetch_max(g, Ordering::SeqCst);
        *sh.workers.lock().unwrap().entry(std::thread::current().id()).or_default() += 1;
    }
    let _g = RunGuard(sh, pooled);
    if dur_us > 0 {
        std::thread::sleep(Duration::from_micros(dur_us as u64));
    }
    if panic_after {
        panic!("{PANIC_MARK} {id}");
    }
}

/// Number of tasks of this process whose `comm` is `name`.
pub fn tasks_named(name: &str) -> usize {
    let mut n = 0;
    if let Ok(rd) = std::fs::read_dir("/proc/self/task") {
        for e in rd.flatten() {
            if let Ok(s) = std::fs::read_to_string(e.path().join("comm")) {
                if s.trim_end() == name {
                    n += 1;
                }
            }
        }
    }
    n
}

/// Wait until exactly `own` tasks named `name` exist (i.e. no pool worker is alive).
pub fn wait_no_workers(name: &str, own: usize, max: Duration) -> bool {
    let end = Instant::now() + max;
    loop {
        if tasks_named(name) <= own {
            return true;
        }
        if Instant::now() > end {
            return false;
        }
        std::thread::sleep(Duration::from_millis(2));
    }
}

/// A start line for threads that should hit the pool at the same moment.
pub struct StartLine {
    arrived: AtomicUsize,
}

impl StartLine {
    pub fn new() -> Self {
        StartLine { arrived: AtomicUsize::new(0) }
    }

    /// `round` counts from 1; returns when `n * round` arrivals were seen (or after 2 s — then the
    /// threads simply start less synchronised, which is harmless).
    pub fn wait(&self, n: usize, round: usize) {
        self.arrived.fetch_add(1, Ordering::SeqCst);
        let end = Instant::now() + Duration::from_secs(2);
        while self.arrived.load(Ordering::SeqCst) < n * round {
            if Instant::now() > end {
                return;
            }
            std::hint::spin_loop();
            std::thread::yield_now();
        }
    }
}

/// Safety valve for broken trees: after three consecutive cases that ended on a watchdog the
/// remaining cases are reported inconclusive at once (the run then exits 2) instead of each
/// waiting for its watchdogs.
static HUNG: AtomicU32 = AtomicU32::new(0);

pub fn with_breaker<C>(case: &C, f: impl Fn(&C) -> vcore::Outcome) -> vcore::Outcome {
    if HUNG.load(Ordering::SeqCst) >= 3 {
        return vcore::Outcome::inconclusive("circuit breaker: three consecutive cases hung");
    }
    let o = f(case);
    match &o {
        vcore::Outcome::Inconclusive { why } => {
            eprintln!("C17: inconclusive case: {why}");
            HUNG.fetch_add(1, Ordering::SeqCst);
        }
        _ => HUNG.store(0, Ordering::SeqCst),
    }
    o
}

pub fn payload_string(p: &(dyn std::any::Any + Send)) -> String {
    if let Some(s) = p.downcast_ref::<String>() {
        s.clone()
    } else if let Some(s) = p.downcast_ref::<&str>() {
        s.to_string()
    } else {
        "<non-string payload>".into()
    }
}

fn main() {
    // job panics are part of the generated programs: keep them off stderr
    let prev = std::panic::take_hook();
    std::panic::set_hook(Box::new(move |info| {
        let msg = payload_string(info.payload());
        if msg.contains(PANIC_MARK) && std::env::var("VERIF_VERBOSE").is_err() {
            return;
        }
        prev(info)
    }));
    let mut s = Session::new();
    // a violation in the first part ends the run (the second part would only add watchdog time)
    if direct::run(&mut s) && rt::run(&mut s) {
        disp::run(&mut s);
    }
    s.finish();
}
