//! C06 part (b) — `SharedFd::take()` against clones released on other threads, every interleaving
//! owned by shuttle (DESIGN.md §3 C06 (b)).
//!
//! `compio-driver/src/fd.rs` is compiled **unmodified** (`#[path]`), in its `sync` flavour, against
//! the shuttle-backed stand-in for `synchrony` in `../shims/synchrony` (see that file for why the
//! stand-ins add no behaviour the real `Arc` / `AtomicWaker` / `AtomicBool` do not have).
//!
//! Case = which holders exist besides the closing thread, what each does with its handle(s)
//! (drop / clone-then-drop-both / call `take()` itself), whether every drop and every poll is made
//! atomic by a harness lock, and the scheduler seed + schedule budget.  For every case K schedules
//! are explored (random + PCT).  Oracle: every thread finishes (a closer that is never woken is a
//! shuttle deadlock); exactly one `take()` yields `Some`, all others `None`; the inner value is
//! alive when it is delivered and dropped exactly once.

// what fd.rs expects to find at the crate root of compio-driver
pub use std::os::fd::{AsFd, AsRawFd, BorrowedFd, RawFd};

#[allow(dead_code)]
#[path = "/repo/compio-driver/src/fd.rs"]
mod fd;

use std::{
    future::Future,
    sync::{
        atomic::{AtomicUsize, Ordering},
        Arc,
    },
    task::{Context, Poll},
};

use fd::SharedFd;
use sched_common::{explore, mix, Budget, FailKind, Verdict, WakeCounter};
use serde::{Deserialize, Serialize};
use synchrony::trace::{self, Ev, Op};
use vcore::{
    proptest::{collection::vec, prelude::*},
    Outcome, Part, Session, Tier,
};

const SIG_OVERLAP: &str = "C06/take/overlapping-release-lost-wake";
const SIG_SECOND_TAKE: &str = "C06/take/second-take-releases-without-wake";
const SIG_NEVER: &str = "C06/take/never-resolves";

// ------------------------------------------------------------------------------------------------
// case

#[derive(Debug, Clone, Copy, Serialize, Deserialize, PartialEq)]
pub enum Rel {
    /// drop the handle
    Drop,
    /// clone the handle on this thread, then drop the original, then the clone
    CloneThenDrop,
    /// call `take()` on the handle and drive it to completion (a second closer)
    Take,
}

#[derive(Debug, Clone, Serialize, Deserialize)]
pub struct FdCase {
    /// seed of the shuttle schedulers: the case fully determines every schedule explored
    pub sched_seed: u64,
    /// schedules under the random scheduler; PCT gets half as many (depth 3)
    pub schedules: u16,
    /// every release and every poll of `take()` happens under one harness lock
    pub atomic_steps: bool,
    /// one thread per holder, each releasing its handles in order
    pub holders: Vec<Vec<Rel>>,
}

fn case_strategy(tier: Tier, allow_free: bool, allow_take: bool) -> impl Strategy<Value = FdCase> + Clone {
    let rel = (0u8..10).prop_map(move |x| match x {
        0..=5 => Rel::Drop,
        6..=7 => Rel::CloneThenDrop,
        _ if allow_take => Rel::Take,
        _ => Rel::Drop,
    });
    let schedules: u16 = if tier == Tier::Thorough { 160 } else { 40 };
    let atomic = (0u8..3).prop_map(move |x| !(allow_free && x == 2));
    (any::<u64>(), atomic, vec(vec(rel, 1..=2), 1..=4)).prop_map(move |(sched_seed, atomic_steps, mut holders)| {
        // a thread that calls take() blocks until every other handle is gone - including its own, so
        // take() can only be the last thing a holder does (anything else is a deadlock by construction)
        for h in holders.iter_mut() {
            h.sort_by_key(|r| *r == Rel::Take);
            let last = h.len() - 1;
            for r in h[..last].iter_mut() {
                if *r == Rel::Take {
                    *r = Rel::Drop;
                }
            }
        }
        FdCase { sched_seed, schedules, atomic_steps, holders }
    })
}

// ------------------------------------------------------------------------------------------------
// the value inside the SharedFd

struct Token {
    drops: Arc<AtomicUsize>,
}

impl AsFd for Token {
    fn as_fd(&self) -> BorrowedFd<'_> {
        // never used for I/O; stdin is merely a descriptor that exists
        unsafe { BorrowedFd::borrow_raw(0) }
    }
}

impl Drop for Token {
    fn drop(&mut self) {
        self.drops.fetch_add(1, Ordering::SeqCst);
    }
}

// ------------------------------------------------------------------------------------------------
// one execution

struct Shared {
    lock: shuttle::sync::Mutex<()>,
    atomic: bool,
    drops: Arc<AtomicUsize>,
    somes: AtomicUsize,
    nones: AtomicUsize,
    verdict: Arc<Verdict>,
}

impl Shared {
    fn step<R>(&self, f: impl FnOnce() -> R) -> R {
        if self.atomic {
            let g = self.lock.lock().unwrap();
            let r = f();
            drop(g);
            r
        } else {
            f()
        }
    }

    /// Drive `h.take()` to completion on the calling shuttle thread, blocking on its waker between polls.
    fn close(&self, h: SharedFd<Token>) {
        let wc = WakeCounter::new();
        let waker = wc.waker();
        let mut cx = Context::from_waker(&waker);
        let mut fut = Box::pin(h.take());
        let mut polls = 0u32;
        loop {
            let before = wc.count();
            let r = self.step(|| {
                trace::push(Op::PollStart);
                let r = fut.as_mut().poll(&mut cx);
                trace::push(Op::PollEnd { ready: r.is_ready() });
                r
            });
            polls += 1;
            match r {
                Poll::Ready(Some(tok)) => {
                    self.somes.fetch_add(1, Ordering::SeqCst);
                    if self.drops.load(Ordering::SeqCst) != 0 {
                        self.verdict.note("C06/take/inner-dropped-before-delivery", "take() returned Some but the inner value had already been dropped".into());
                    }
                    drop(tok);
                    return;
                }
                Poll::Ready(None) => {
                    self.nones.fetch_add(1, Ordering::SeqCst);
                    return;
                }
                Poll::Pending => {
                    if polls > 64 {
                        self.verdict.note("C06/take/poll-storm", "take() still pending after 64 wake-ups".into());
                        return;
                    }
                    wc.wait_beyond(before);
                }
            }
        }
    }
}

fn execution(case: &FdCase, verdict: &Arc<Verdict>) {
    trace::reset();
    let drops = Arc::new(AtomicUsize::new(0));
    let sh = Arc::new(Shared {
        lock: shuttle::sync::Mutex::new(()),
        atomic: case.atomic_steps,
        drops: drops.clone(),
        somes: AtomicUsize::new(0),
        nones: AtomicUsize::new(0),
        verdict: verdict.clone(),
    });
    let root = SharedFd::new(Token { drops: drops.clone() });
    let mut takes = 1usize;
    let mut threads = vec![];
    for prog in &case.holders {
        // one handle per release op, created before the thread starts (as `File::clone` would)
        let handles: Vec<SharedFd<Token>> = prog.iter().map(|_| root.clone()).collect();
        takes += prog.iter().filter(|r| **r == Rel::Take).count();
        let prog = prog.clone();
        let sh = sh.clone();
        threads.push(shuttle::thread::spawn(move || {
            for (op, h) in prog.into_iter().zip(handles) {
                match op {
                    Rel::Drop => sh.step(|| drop(h)),
                    Rel::CloneThenDrop => {
                        let c = sh.step(|| h.clone());
                        sh.step(|| drop(h));
                        sh.step(|| drop(c));
                    }
                    Rel::Take => sh.close(h),
                }
            }
        }));
    }
    sh.close(root);
    for t in threads {
        t.join().unwrap();
    }
    let somes = sh.somes.load(Ordering::SeqCst);
    let nones = sh.nones.load(Ordering::SeqCst);
    if somes != 1 || somes + nones != takes {
        verdict.note("C06/take/resolved-count", format!("{takes} take() calls: {somes} returned Some, {nones} None (expected exactly one Some)"));
    }
    let d = drops.load(Ordering::SeqCst);
    if d != 1 {
        verdict.note("C06/take/inner-drop-count", format!("inner value dropped {d} times"));
    }
    if verdict.is_set() {
        panic!("oracle verdict recorded");
    }
}

// ------------------------------------------------------------------------------------------------
// classification of a hang from the protocol trace

fn render(tr: &[Ev]) -> String {
    tr.iter().map(|e| format!("t{}:{:?}", e.thread, e.op)).collect::<Vec<_>>().join(" ")
}

/// (signature, explanation).  Only the *shape* of the trace is used.
fn classify_hang(tr: &[Ev]) -> (&'static str, String) {
    // (2) a `take()` that returned None (somebody else was already waiting) released its reference
    //     and did not wake afterwards, while another closer was waiting
    #[derive(Default, Clone, Copy)]
    struct NoneTake {
        active: bool,
        dec: Option<usize>,
        woke_after: bool,
    }
    let mut nt: std::collections::HashMap<usize, NoneTake> = Default::default();
    let mut first_closer: Option<usize> = None;
    for e in tr {
        let st = nt.entry(e.thread).or_default();
        match e.op {
            Op::WaitsSwap { prev: false } if first_closer.is_none() => first_closer = Some(e.thread),
            Op::WaitsSwap { prev: true } => *st = NoneTake { active: true, dec: None, woke_after: false },
            Op::Dec { before } if st.active && st.dec.is_none() => st.dec = Some(before),
            Op::Wake { .. } if st.active && st.dec.is_some() => st.woke_after = true,
            Op::PollEnd { .. } if st.active => {
                let s = *st;
                *st = NoneTake::default();
                if let Some(before) = s.dec {
                    if !s.woke_after && before >= 2 && first_closer.is_some_and(|c| c != e.thread) {
                        return (SIG_SECOND_TAKE, format!("thread t{} released its reference inside take()->None (count {before}->{}) without waking the waiting closer", e.thread, before - 1));
                    }
                }
            }
            _ => {}
        }
    }
    // (1) a release window [strong_count read .. decrement] of one thread overlapping a protocol step
    //     of another thread (a poll of take(), or another release window)
    let mut open_polls: std::collections::HashSet<usize> = Default::default();
    let mut open_windows: std::collections::HashSet<usize> = Default::default();
    for e in tr {
        match e.op {
            Op::PollStart => {
                if !open_windows.is_empty() {
                    return (SIG_OVERLAP, format!("a poll of take() on t{} started inside the release window of t{:?}", e.thread, open_windows));
                }
                open_polls.insert(e.thread);
            }
            Op::PollEnd { .. } => {
                open_polls.remove(&e.thread);
            }
            Op::CountRead { .. } => {
                if open_polls.iter().any(|t| *t != e.thread) || open_windows.iter().any(|t| *t != e.thread) {
                    return (SIG_OVERLAP, format!("release window of t{} opened while polls {:?} / release windows {:?} of other threads were in progress", e.thread, open_polls, open_windows));
                }
                open_windows.insert(e.thread);
            }
            Op::Dec { .. } => {
                open_windows.remove(&e.thread);
            }
            _ => {}
        }
    }
    (SIG_NEVER, "no overlapping release and no silent release in the trace".into())
}

// ------------------------------------------------------------------------------------------------
// interpreter

fn run_case(case: &FdCase) -> Outcome {
    let verdict = Verdict::new();
    let budget = Budget { random: case.schedules as usize, pct: (case.schedules / 2) as usize, pct_depth: 3, max_steps: 200_000 };
    let c = Arc::new(case.clone());
    let v = verdict.clone();
    let ex = explore(mix(case.sched_seed), budget, move || execution(&c, &v));
    let releases: usize = case.holders.iter().map(|h| h.len()).sum();
    let has_take = case.holders.iter().flatten().any(|r| *r == Rel::Take);
    if let Some(f) = ex.failure {
        let tr = trace::snapshot();
        if let Some((sig, detail)) = verdict.take() {
            return Outcome::violation(sig, format!("{detail}; {}; trace: {}", f.describe(), render(&tr)));
        }
        return match f.kind {
            FailKind::Deadlock => {
                let (sig, why) = classify_hang(&tr);
                Outcome::violation(sig, format!("take() never resolved: {why}; {}; trace: {}", f.describe(), render(&tr)))
            }
            FailKind::StepBound => Outcome::violation("C06/take/livelock", f.describe()),
            FailKind::Panic => Outcome::violation(format!("panic@{}:{}", f.file.rsplit_once(':').map(|x| x.0).unwrap_or(&f.file), sched_common::strip_digits(&f.message)), f.describe()),
        };
    }
    let mut labels = vec![
        format!("class:{}", if case.atomic_steps { "atomic-steps" } else { "free" }),
        format!("holders:{}", case.holders.len()),
        format!("releases:{}", releases.min(8)),
        format!("schedules:{}", ex.schedules),
    ];
    if has_take {
        labels.push("second-take".into());
    }
    if case.holders.iter().flatten().any(|r| *r == Rel::CloneThenDrop) {
        labels.push("clone-on-holder-thread".into());
    }
    SCHEDULES.fetch_add(ex.schedules, Ordering::Relaxed);
    Outcome::pass_owned(releases >= 2, labels)
}

static SCHEDULES: std::sync::atomic::AtomicU64 = std::sync::atomic::AtomicU64::new(0);

fn main() {
    let mut s = Session::new();
    sched_common::init();
    let known = s.known_signatures("C06");
    let allow_free = !known.contains(SIG_OVERLAP);
    let allow_take = !known.contains(SIG_SECOND_TAKE);
    let mut p = Part::new(
        "C06",
        "take-vs-remote-release",
        "case = 1-4 holder threads, each releasing 1-2 handles by drop / clone-then-drop-both / its own take(); class atomic-steps (every \
         release and every poll of take() under one harness lock: all orders of release before the first poll, between polls, several \
         releases between polls) or free (every Arc / flag / waker-slot operation a scheduling point); x 40 random + 20 PCT(depth 3) shuttle \
         schedules per case (thorough 160 + 80), seeds stored in the case. Classes that are listed as known findings are left out of the \
         generator and run as regression cases only. Non-trivial = at least 2 releases by other threads; distinct = distinct serialised case.",
    );
    p.quick_cases = 3000;
    p.thorough_cases = 15_000;
    p.threads = 8;
    p.max_shrink_iters = 200;
    p.assumptions = vec![
        "shuttle explores sequentially consistent interleavings only; reorderings allowed by the Acquire/Release orderings in fd.rs are out of reach",
        "Arc, AtomicWaker and AtomicBool are replaced by stand-ins with the same linearizable behaviour (ws-sched/shims/synchrony); the real synchrony crate is not executed",
        "schedules are sampled (random + PCT), not enumerated",
    ];
    let mut excluded = vec![];
    if !allow_free {
        excluded.push("class free (overlapping releases) — known finding, regression case only");
    }
    if !allow_take {
        excluded.push("second take() on a clone — known finding, regression case only");
    }
    let per_case: u64 = if s.tier() == Tier::Thorough { 240 } else { 60 };
    p.regressions = vec![
        // known finding (1): one clone dropped on another thread, nothing atomic
        ("one-remote-drop-free", FdCase { sched_seed: 1, schedules: 3000, atomic_steps: false, holders: vec![vec![Rel::Drop]] }),
        // two droppers can both read strong_count == 3
        ("two-remote-drops-free", FdCase { sched_seed: 2, schedules: 3000, atomic_steps: false, holders: vec![vec![Rel::Drop], vec![Rel::Drop]] }),
        // known finding (2): a second take() lets go silently
        ("second-take-atomic", FdCase { sched_seed: 3, schedules: 400, atomic_steps: true, holders: vec![vec![Rel::Take]] }),
        // the complementary class must hold
        ("one-remote-drop-atomic", FdCase { sched_seed: 4, schedules: 400, atomic_steps: true, holders: vec![vec![Rel::Drop]] }),
        ("three-holders-atomic", FdCase { sched_seed: 5, schedules: 400, atomic_steps: true, holders: vec![vec![Rel::Drop, Rel::Drop], vec![Rel::CloneThenDrop], vec![Rel::Drop]] }),
    ];
    let tier = s.tier();
    p.extra = vcore::serde_json::json!({ "excluded_by_construction": excluded, "schedules_per_case": per_case });
    s.run_part(p, case_strategy(tier, allow_free, allow_take), run_case);
    sched_common::report_schedules(&mut s, "C06", "take-vs-remote-release", SCHEDULES.load(Ordering::Relaxed), "cases that hit a listed known finding stop at their first failing schedule and are not counted");
    s.finish();
}
