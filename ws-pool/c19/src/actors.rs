//! The instrumented actors the C19 programs run on the real compio-actor cluster.
use std::{
    future::Future,
    num::NonZeroUsize,
    pin::Pin,
    sync::{
        atomic::{AtomicI32, AtomicUsize, Ordering},
        Arc, Mutex,
    },
    task::{Context, Poll},
    time::Duration,
};

use compio_actor::{supervisor::SupervisionEvent, Actor, ActorHandle, Call, Cluster, Handler, Mailbox};
use futures_channel::oneshot;
use serde::{Deserialize, Serialize};

/// (sender id, sequence number of that sender)
pub type MsgId = (u16, u32);

#[derive(Debug, Clone, Copy, PartialEq, Eq)]
pub enum Ev {
    PreStart,
    PostStart,
    Begin(MsgId),
    End(MsgId),
    PreStop,
    PostStop,
}

#[derive(Debug, Clone, Copy, Serialize, Deserialize, PartialEq, Eq)]
pub enum Act {
    Nop,
    Yield(u8),
    /// n x 100 us
    Sleep(u8),
    /// the handler returns Err: the actor fails
    Fail,
    /// the handler calls `myself.stop()`
    StopSelf,
    /// (calls only) the handler drops the call without replying
    NoReply,
    /// wait until the harness opens gate g (used by the harness itself, never generated)
    WaitGate(u16),
}

#[derive(Debug)]
pub struct Cast {
    pub id: MsgId,
    pub act: Act,
}

#[derive(Debug)]
pub struct Ask {
    pub id: MsgId,
    pub act: Act,
}

#[derive(Debug, PartialEq, Eq)]
pub struct Ans {
    pub aid: usize,
    pub id: MsgId,
}

pub struct ASt {
    pub log: Mutex<Vec<Ev>>,
    pub in_handler: AtomicI32,
    pub max_in_handler: AtomicI32,
}

pub struct Gate {
    pub tx: Mutex<Option<oneshot::Sender<()>>>,
    pub rx: Mutex<Option<oneshot::Receiver<()>>>,
}

#[derive(Debug, Clone, Copy, PartialEq, Eq)]
pub enum SupKind {
    Started,
    Terminated,
    Failed,
}

pub struct Respawned {
    pub name: String,
    pub aid: usize,
    pub mailbox: Mailbox<TA>,
    pub handle: ActorHandle<String>,
}

pub const MAX_ACTORS: usize = 48;
pub const MAX_GATES: usize = 64;

pub struct Sh {
    pub actors: Vec<ASt>,
    pub gates: Vec<Gate>,
    pub next_aid: AtomicUsize,
    pub next_gate: AtomicUsize,
    pub sup_log: Mutex<Vec<(SupKind, Option<String>)>>,
    pub respawn_budget: AtomicI32,
    pub respawned: Mutex<Vec<Respawned>>,
    pub respawn_errors: Mutex<Vec<String>>,
}

impl Sh {
    pub fn new(respawn_budget: i32) -> Arc<Self> {
        Arc::new(Sh {
            actors: (0..MAX_ACTORS).map(|_| ASt { log: Mutex::new(vec![]), in_handler: AtomicI32::new(0), max_in_handler: AtomicI32::new(0) }).collect(),
            gates: (0..MAX_GATES)
                .map(|_| {
                    let (tx, rx) = oneshot::channel();
                    Gate { tx: Mutex::new(Some(tx)), rx: Mutex::new(Some(rx)) }
                })
                .collect(),
            next_aid: AtomicUsize::new(0),
            next_gate: AtomicUsize::new(0),
            sup_log: Mutex::new(vec![]),
            respawn_budget: AtomicI32::new(respawn_budget),
            respawned: Mutex::new(vec![]),
            respawn_errors: Mutex::new(vec![]),
        })
    }

    pub fn log(&self, aid: usize, ev: Ev) {
        self.actors[aid].log.lock().unwrap().push(ev);
    }

    pub fn log_of(&self, aid: usize) -> Vec<Ev> {
        self.actors[aid].log.lock().unwrap().clone()
    }

    pub fn open_gate(&self, g: usize) {
        self.gates[g].tx.lock().unwrap().take();
    }

    async fn wait_gate(&self, g: usize) {
        let rx = self.gates[g].rx.lock().unwrap().take();
        if let Some(rx) = rx {
            let _ = rx.await;
        }
    }
}

struct YieldNow(bool);

impl Future for YieldNow {
    type Output = ();

    fn poll(mut self: Pin<&mut Self>, cx: &mut Context<'_>) -> Poll<()> {
        if self.0 {
            Poll::Ready(())
        } else {
            self.0 = true;
            cx.waker().wake_by_ref();
            Poll::Pending
        }
    }
}

#[derive(Debug, Clone, Copy, Serialize, Deserialize, PartialEq, Eq)]
pub enum StartFail {
    None,
    PreStart,
    PostStart,
}

/// The test actor.
pub struct TA {
    pub aid: usize,
    pub sh: Arc<Sh>,
    pub fail: StartFail,
    /// `pre_start` waits for this gate (slow start-up)
    pub start_gate: Option<usize>,
}

/// An actor value whose start-up failed is slow to drop (a user type may be): whatever the cluster still does
/// with the failed start after reporting it (releasing the reserved name, for one) must not wait for that.
impl Drop for TA {
    fn drop(&mut self) {
        if self.fail == StartFail::PreStart {
            std::thread::sleep(std::time::Duration::from_millis(15));
        }
    }
}

impl Actor for TA {
    type Arguments = ();
    type Error = String;
    type State = ();

    async fn pre_start(&self, _myself: &Mailbox<Self>, (): ()) -> Result<(), String> {
        self.sh.log(self.aid, Ev::PreStart);
        if let Some(g) = self.start_gate {
            self.sh.wait_gate(g).await;
        }
        if self.fail == StartFail::PreStart {
            return Err("pre_start failed".into());
        }
        Ok(())
    }

    async fn post_start(&self, _myself: &Mailbox<Self>, _: &mut ()) -> Result<(), String> {
        self.sh.log(self.aid, Ev::PostStart);
        if self.fail == StartFail::PostStart {
            return Err("post_start failed".into());
        }
        Ok(())
    }

    async fn pre_stop(&self, _myself: &Mailbox<Self>, _: &mut ()) -> Result<(), String> {
        self.sh.log(self.aid, Ev::PreStop);
        Ok(())
    }

    async fn post_stop(&self, _myself: &Mailbox<Self>, _: &mut ()) -> Result<(), String> {
        self.sh.log(self.aid, Ev::PostStop);
        Ok(())
    }
}

struct InHandler<'a>(&'a ASt);

impl<'a> InHandler<'a> {
    fn enter(st: &'a ASt) -> Self {
        let n = st.in_handler.fetch_add(1, Ordering::SeqCst) + 1;
        st.max_in_handler.fetch_max(n, Ordering::SeqCst);
        InHandler(st)
    }
}

impl Drop for InHandler<'_> {
    fn drop(&mut self) {
        self.0.in_handler.fetch_sub(1, Ordering::SeqCst);
    }
}

impl TA {
    /// common handler body; `Err` = the handler fails
    async fn perform(&self, myself: &Mailbox<Self>, id: MsgId, act: Act) -> Result<(), String> {
        let st = &self.sh.actors[self.aid];
        let _g = InHandler::enter(st);
        self.sh.log(self.aid, Ev::Begin(id));
        match act {
            Act::Nop | Act::NoReply => {}
            Act::Yield(k) => {
                for _ in 0..k {
                    YieldNow(false).await;
                }
            }
            Act::Sleep(n) => compio_runtime::time::sleep(Duration::from_micros(100 * n as u64)).await,
            Act::WaitGate(g) => self.sh.wait_gate(g as usize).await,
            Act::StopSelf => {
                myself.stop();
            }
            Act::Fail => {}
        }
        self.sh.log(self.aid, Ev::End(id));
        if act == Act::Fail {
            Err(format!("handler failed on {id:?}"))
        } else {
            Ok(())
        }
    }
}

impl Handler<Cast> for TA {
    async fn handle(&self, myself: &Mailbox<Self>, m: Cast, _: &mut ()) -> Result<(), String> {
        self.perform(myself, m.id, m.act).await
    }
}

impl Handler<Call<Ask, Ans>> for TA {
    async fn handle(&self, myself: &Mailbox<Self>, call: Call<Ask, Ans>, _: &mut ()) -> Result<(), String> {
        let (id, act) = (call.message().id, call.message().act);
        let r = self.perform(myself, id, act).await;
        if r.is_ok() && act != Act::NoReply {
            call.reply(Ans { aid: self.aid, id }).ok();
        }
        r
    }
}

/// The supervisor: records every event; respawns a named child under the same name while the
/// budget lasts (from inside its handler, through `Cluster::current()`).
pub struct Sup {
    pub sh: Arc<Sh>,
}

impl Actor for Sup {
    type Arguments = ();
    type Error = String;
    type State = ();

    async fn pre_start(&self, _myself: &Mailbox<Self>, (): ()) -> Result<(), String> {
        Ok(())
    }
}

impl Handler<SupervisionEvent<TA>> for Sup {
    async fn handle(&self, myself: &Mailbox<Self>, ev: SupervisionEvent<TA>, _: &mut ()) -> Result<(), String> {
        let kind = match &ev {
            SupervisionEvent::ActorStarted(_) => SupKind::Started,
            SupervisionEvent::ActorTerminated(_) => SupKind::Terminated,
            SupervisionEvent::ActorFailed(_) => SupKind::Failed,
        };
        let name = ev.actor().name().map(str::to_owned);
        drop(ev);
        self.sh.sup_log.lock().unwrap().push((kind, name.clone()));
        if kind != SupKind::Started {
            if let Some(name) = name {
                if self.sh.respawn_budget.fetch_sub(1, Ordering::SeqCst) > 0 {
                    let aid = self.sh.next_aid.fetch_add(1, Ordering::SeqCst);
                    let sh = self.sh.clone();
                    let r = Cluster::current()
                        .spawn(move || TA { aid, sh, fail: StartFail::None, start_gate: None }, ())
                        .with_name(name.clone())
                        .with_capacity(NonZeroUsize::new(4).unwrap())
                        .with_supervisor(myself)
                        .await;
                    match r {
                        Ok((mailbox, handle)) => self.sh.respawned.lock().unwrap().push(Respawned { name, aid, mailbox, handle }),
                        Err(e) => self.sh.respawn_errors.lock().unwrap().push(format!("respawn of {name:?} right after its terminal event: {e:?}")),
                    }
                }
            }
        }
        Ok(())
    }
}
