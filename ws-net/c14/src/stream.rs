//! C14 part "stream": TCP loopback and Unix stream pairs, generated sender / receiver scripts.
use std::{
    cell::Cell,
    future::Future,
    io,
    os::fd::{AsRawFd, RawFd},
    pin::Pin,
    rc::Rc,
    time::Duration,
};

use compio_buf::{BufResult, IntoInner, IoBufExt};
use compio_driver::BufferRef;
use compio_io::{
    ancillary::{AncillaryBuf, AsyncReadAncillary, AsyncReadAncillaryManaged, AsyncReadAncillaryMulti, AsyncWriteAncillary, AsyncWriteAncillaryZerocopy},
    AsyncRead, AsyncReadExt, AsyncReadManaged, AsyncReadMulti, AsyncWrite, AsyncWriteExt, AsyncWriteZerocopy,
};
use compio_net::{ReadHalf, TcpListener, TcpStream, UnixListener, UnixStream, WriteHalf};
use futures_util::StreamExt;
use netlab::{build_rt, drive, errno_name, fill, join_now, mismatch, Drv, RtCfg, SharedLog};
use serde::{Deserialize, Serialize};
use vcore::{
    proptest::{collection::vec, prelude::*},
    Outcome, Part, Session,
};

use crate::util::{cmsg, is_nobufs, parse_cmsgs, yield_now, DevNull};

// ------------------------------------------------------------------------------------------------
// case type

#[derive(Debug, Clone, Copy, PartialEq, Serialize, Deserialize)]
pub enum Transport {
    Tcp4,
    Tcp6,
    Unix,
}

/// How a task reaches its end of the connection.
#[derive(Debug, Clone, Copy, PartialEq, Serialize, Deserialize)]
pub enum Mode {
    /// the task owns the stream (whole stream, or an owned half from `into_split`) and uses the `&mut self` impls
    Owned,
    /// through `&Stream` (the `impl ... for &Stream` flavour)
    Ref,
    /// borrowed split halves (`split()`): plain reads / writes through the half, the rest through its `Deref`
    Half,
}

#[derive(Debug, Clone, Serialize, Deserialize)]
pub enum SendOp {
    Send { n: u32 },
    SendVectored { parts: Vec<u32> },
    WriteAll { n: u32 },
    WriteVectoredAll { parts: Vec<u32> },
    Zc { n: u32, defer: bool },
    ZcVectored { parts: Vec<u32>, defer: bool },
    /// `write_with_ancillary`; `anc`: Unix: SCM_RIGHTS with one descriptor, TCP: an IP_TOS cmsg (ignored by TCP)
    Msg { n: u32, anc: bool },
    MsgVectored { parts: Vec<u32>, anc: bool },
    MsgZc { n: u32, anc: bool },
}

#[derive(Debug, Clone, Copy, Serialize, Deserialize)]
pub enum Shape {
    /// `Vec::with_capacity(cap)`
    Vec,
    /// `Box<[u8]>` of `cap` bytes (fixed length buffer)
    Boxed,
    /// `vec.slice(pre .. pre+cap)` of a canary-filled vector with `tail` more bytes behind the window
    Slice { pre: u8, tail: u8 },
}

#[derive(Debug, Clone, Serialize, Deserialize)]
pub enum RecvOp {
    Recv { cap: u32, shape: Shape },
    RecvVectored { caps: Vec<u32> },
    ReadExact { n: u32 },
    Managed { len: u32 },
    /// `read_with_ancillary` with a control buffer of `ctl` bytes
    Msg { cap: u32, ctl: u8 },
    MsgManaged { len: u32, ctl: u8 },
}

/// How the receiver drains the connection to EOF after its script.
#[derive(Debug, Clone, Serialize, Deserialize)]
pub enum Tail {
    Recv { cap: u32 },
    Managed { len: u32 },
    Multi { len: u32 },
    MsgMulti { clen: u8 },
    ReadToEnd,
}

#[derive(Debug, Clone, Serialize, Deserialize)]
pub struct Dir {
    pub seed: u16,
    pub tx_mode: Mode,
    pub rx_mode: Mode,
    pub send: Vec<SendOp>,
    pub recv: Vec<RecvOp>,
    pub tail: Tail,
    /// SO_SNDBUF of the sending end / SO_RCVBUF of the receiving end: 0 = default, else bytes
    pub sndbuf: u32,
    pub rcvbuf: u32,
}

#[derive(Debug, Clone, Serialize, Deserialize)]
pub struct StreamCase {
    pub drv: Drv,
    pub transport: Transport,
    /// 1 = A→B only, 2 = also B→A on the same connection (both ends split)
    pub dirs: Vec<Dir>,
    pub pool_len: u32,
}

// ------------------------------------------------------------------------------------------------
// access to an endpoint in the three modes

pub trait Tx {
    type W: AsyncWrite;
    type X: AsyncWriteZerocopy + AsyncWriteAncillary + AsyncWriteAncillaryZerocopy;
    fn w(&mut self) -> &mut Self::W;
    fn x(&mut self) -> &mut Self::X;
}

pub trait Rx {
    type R: AsyncRead;
    type M: AsyncReadManaged<Buffer = BufferRef> + AsyncReadMulti + AsyncReadAncillary + AsyncReadAncillaryManaged + AsyncReadAncillaryMulti<Return = compio_driver::op::RecvMsgMultiResult>;
    fn r(&mut self) -> &mut Self::R;
    fn m(&mut self) -> &mut Self::M;
}

pub struct OwnedEnd<S>(pub S);
pub struct RefEnd<'a, S>(pub &'a S);
pub struct HalfTx<'a, S>(pub WriteHalf<'a, S>, pub &'a S);
pub struct HalfRx<'a, S>(pub ReadHalf<'a, S>, pub &'a S);

macro_rules! impl_ends {
    ($s:ty) => {
        impl Tx for OwnedEnd<$s> {
            type W = $s;
            type X = $s;
            fn w(&mut self) -> &mut $s { &mut self.0 }
            fn x(&mut self) -> &mut $s { &mut self.0 }
        }
        impl Rx for OwnedEnd<$s> {
            type R = $s;
            type M = $s;
            fn r(&mut self) -> &mut $s { &mut self.0 }
            fn m(&mut self) -> &mut $s { &mut self.0 }
        }
        impl<'a> Tx for RefEnd<'a, $s> {
            type W = &'a $s;
            type X = &'a $s;
            fn w(&mut self) -> &mut &'a $s { &mut self.0 }
            fn x(&mut self) -> &mut &'a $s { &mut self.0 }
        }
        impl<'a> Rx for RefEnd<'a, $s> {
            type R = &'a $s;
            type M = &'a $s;
            fn r(&mut self) -> &mut &'a $s { &mut self.0 }
            fn m(&mut self) -> &mut &'a $s { &mut self.0 }
        }
        impl<'a> Tx for HalfTx<'a, $s> {
            type W = WriteHalf<'a, $s>;
            type X = &'a $s;
            fn w(&mut self) -> &mut WriteHalf<'a, $s> { &mut self.0 }
            fn x(&mut self) -> &mut &'a $s { &mut self.1 }
        }
        impl<'a> Rx for HalfRx<'a, $s> {
            type R = ReadHalf<'a, $s>;
            type M = &'a $s;
            fn r(&mut self) -> &mut ReadHalf<'a, $s> { &mut self.0 }
            fn m(&mut self) -> &mut &'a $s { &mut self.1 }
        }
    };
}
impl_ends!(TcpStream);
impl_ends!(UnixStream);

// ------------------------------------------------------------------------------------------------
// per-direction shared state

pub struct DirState {
    pub seed: u64,
    /// set by the sender right before `shutdown`
    pub sent_total: Cell<Option<u64>>,
    pub shutdown_done: Cell<bool>,
    pub received: Cell<u64>,
    pub saw_eof: Cell<bool>,
    pub partial_sends: Cell<u32>,
    pub fds_sent: Cell<u32>,
    pub fds_received: Cell<u32>,
    pub kinds_tx: Cell<u32>,
    pub kinds_rx: Cell<u32>,
}

type Deferred = Pin<Box<dyn Future<Output = Vec<Vec<u8>>>>>;

fn parts_bufs(seed: u64, pos: u64, parts: &[u32]) -> (Vec<Vec<u8>>, usize) {
    let mut p = pos;
    let mut total = 0;
    let v = parts
        .iter()
        .map(|n| {
            let b = fill(seed, p, *n as usize);
            p += *n as u64;
            total += *n as usize;
            b
        })
        .collect();
    (v, total)
}

fn same_bufs(seed: u64, pos: u64, bufs: &[Vec<u8>]) -> bool {
    let mut p = pos;
    for b in bufs {
        if mismatch(seed, p, b).is_some() {
            return false;
        }
        p += b.len() as u64;
    }
    true
}

fn control_for(anc: bool, is_unix: bool, devnull: &DevNull) -> Vec<u8> {
    if !anc {
        return Vec::new();
    }
    if is_unix {
        cmsg(libc::SOL_SOCKET, libc::SCM_RIGHTS, &devnull.fd().to_ne_bytes())
    } else {
        cmsg(libc::IPPROTO_IP, libc::IP_TOS, &8i32.to_ne_bytes())
    }
}

pub async fn run_sender<T: Tx>(mut t: T, raw: RawFd, is_unix: bool, ops: Vec<SendOp>, st: Rc<DirState>, log: SharedLog, devnull: Rc<DevNull>)
where
    <T::X as AsyncWriteZerocopy>::BufferReadyFuture<Vec<u8>>: 'static,
    <T::X as AsyncWriteZerocopy>::VectoredBufferReadyFuture<Vec<Vec<u8>>>: 'static,
{
    let seed = st.seed;
    let mut pos: u64 = 0;
    let mut deferred: Vec<(u64, Deferred)> = vec![];
    macro_rules! bad {
        ($sig:expr, $($fmt:tt)+) => {{ log.violate(format!("C14/stream/{}", $sig), format!($($fmt)+)); return; }};
    }
    let check_count = |k: usize, n: usize, what: &str| -> Result<(), String> {
        if k > n {
            return Err(format!("{what}: reported {k} bytes sent of a {n}-byte buffer"));
        }
        if n > 0 && k == 0 {
            return Err(format!("{what}: reported 0 bytes sent of a {n}-byte buffer"));
        }
        Ok(())
    };
    for (i, op) in ops.iter().enumerate() {
        if log.failed() {
            return;
        }
        // await deferred zero-copy buffers from two ops ago
        while deferred.len() > 1 {
            let (p, f) = deferred.remove(0);
            let bufs = f.await;
            if !same_bufs(seed, p, &bufs) {
                bad!("zerocopy-buffer-changed", "send op before #{i}: buffer returned by the zero-copy future differs from what was submitted");
            }
        }
        let kind_bit;
        match op {
            SendOp::Send { n } => {
                kind_bit = 0;
                let n = *n as usize;
                let buf = fill(seed, pos, n);
                let ptr = buf.as_ptr();
                let BufResult(res, buf) = t.w().write(buf).await;
                match res {
                    Ok(k) => {
                        if let Err(e) = check_count(k, n, "send") {
                            bad!("send-count", "send op #{i}: {e}");
                        }
                        if buf.as_ptr() != ptr || mismatch(seed, pos, &buf).is_some() || buf.len() != n {
                            bad!("send-buffer-changed", "send op #{i}: buffer came back moved or modified");
                        }
                        if k < n {
                            st.partial_sends.set(st.partial_sends.get() + 1);
                        }
                        pos += k as u64;
                    }
                    Err(e) => bad!(format!("send-error/{}", errno_name(&e)), "send op #{i} ({n} bytes at {pos}): {e}"),
                }
            }
            SendOp::SendVectored { parts } => {
                kind_bit = 1;
                let (bufs, n) = parts_bufs(seed, pos, parts);
                let BufResult(res, bufs) = t.w().write_vectored(bufs).await;
                match res {
                    Ok(k) => {
                        if let Err(e) = check_count(k, n, "send_vectored") {
                            bad!("send-count", "send op #{i}: {e}");
                        }
                        if !same_bufs(seed, pos, &bufs) {
                            bad!("send-buffer-changed", "send op #{i}: vectored buffers came back modified");
                        }
                        if k < n {
                            st.partial_sends.set(st.partial_sends.get() + 1);
                        }
                        pos += k as u64;
                    }
                    Err(e) => bad!(format!("send-error/{}", errno_name(&e)), "send_vectored op #{i} ({parts:?} at {pos}): {e}"),
                }
            }
            SendOp::WriteAll { n } => {
                kind_bit = 2;
                let n = *n as usize;
                let buf = fill(seed, pos, n);
                let BufResult(res, buf) = t.w().write_all(buf).await;
                match res {
                    Ok(()) => {
                        if mismatch(seed, pos, &buf).is_some() || buf.len() != n {
                            bad!("send-buffer-changed", "write_all op #{i}: buffer came back modified");
                        }
                        pos += n as u64;
                    }
                    Err(e) => bad!(format!("send-error/{}", errno_name(&e)), "write_all op #{i} ({n} bytes at {pos}): {e}"),
                }
            }
            SendOp::WriteVectoredAll { parts } => {
                kind_bit = 3;
                let (bufs, n) = parts_bufs(seed, pos, parts);
                let BufResult(res, bufs) = t.w().write_vectored_all(bufs).await;
                match res {
                    Ok(()) => {
                        if !same_bufs(seed, pos, &bufs) {
                            bad!("send-buffer-changed", "write_vectored_all op #{i}: buffers came back modified");
                        }
                        pos += n as u64;
                    }
                    Err(e) => bad!(format!("send-error/{}", errno_name(&e)), "write_vectored_all op #{i} ({parts:?} at {pos}): {e}"),
                }
            }
            SendOp::Zc { n, defer } => {
                kind_bit = 4;
                let n = *n as usize;
                let buf = fill(seed, pos, n);
                let BufResult(res, fut) = t.x().write_zerocopy(buf).await;
                let fut: Deferred = Box::pin(async move { vec![fut.await] });
                match res {
                    Ok(k) => {
                        if let Err(e) = check_count(k, n, "send_zerocopy") {
                            bad!("send-count", "send op #{i}: {e}");
                        }
                        if k < n {
                            st.partial_sends.set(st.partial_sends.get() + 1);
                        }
                        deferred.push((pos, fut));
                        pos += k as u64;
                    }
                    Err(e) if is_unix && e.raw_os_error() == Some(libc::EOPNOTSUPP) => {
                        // the OS has no zero-copy for AF_UNIX: reported as an error, nothing was sent
                        log.label("zc-unsupported-on-unix");
                        deferred.push((pos, fut));
                    }
                    Err(e) => bad!(format!("send-error/{}", errno_name(&e)), "send_zerocopy op #{i} ({n} bytes at {pos}): {e}"),
                }
                if !*defer {
                    while let Some((p, f)) = deferred.pop() {
                        let bufs = f.await;
                        if !same_bufs(seed, p, &bufs) {
                            bad!("zerocopy-buffer-changed", "send op #{i}: buffer returned by the zero-copy future differs from what was submitted");
                        }
                    }
                }
            }
            SendOp::ZcVectored { parts, defer } => {
                kind_bit = 5;
                let (bufs, n) = parts_bufs(seed, pos, parts);
                let BufResult(res, fut) = t.x().write_zerocopy_vectored(bufs).await;
                let fut: Deferred = Box::pin(fut);
                match res {
                    Ok(k) => {
                        if let Err(e) = check_count(k, n, "send_zerocopy_vectored") {
                            bad!("send-count", "send op #{i}: {e}");
                        }
                        if k < n {
                            st.partial_sends.set(st.partial_sends.get() + 1);
                        }
                        deferred.push((pos, fut));
                        pos += k as u64;
                    }
                    Err(e) if is_unix && e.raw_os_error() == Some(libc::EOPNOTSUPP) => {
                        log.label("zc-unsupported-on-unix");
                        deferred.push((pos, fut));
                    }
                    Err(e) => bad!(format!("send-error/{}", errno_name(&e)), "send_zerocopy_vectored op #{i} ({parts:?} at {pos}): {e}"),
                }
                if !*defer {
                    while let Some((p, f)) = deferred.pop() {
                        let bufs = f.await;
                        if !same_bufs(seed, p, &bufs) {
                            bad!("zerocopy-buffer-changed", "send op #{i}: buffers returned by the zero-copy future differ from what was submitted");
                        }
                    }
                }
            }
            SendOp::Msg { n, anc } => {
                kind_bit = 6;
                let n = *n as usize;
                let buf = fill(seed, pos, n);
                let control = control_for(*anc, is_unix, &devnull);
                let clen = control.len();
                let BufResult(res, (buf, control)) = t.x().write_with_ancillary(buf, control).await;
                match res {
                    Ok(k) => {
                        if let Err(e) = check_count(k, n, "send_msg") {
                            bad!("send-count", "send op #{i}: {e}");
                        }
                        if mismatch(seed, pos, &buf).is_some() || buf.len() != n || control.len() != clen {
                            bad!("send-buffer-changed", "send_msg op #{i}: buffers came back modified");
                        }
                        if *anc && is_unix && n > 0 {
                            st.fds_sent.set(st.fds_sent.get() + 1);
                        }
                        if k < n {
                            st.partial_sends.set(st.partial_sends.get() + 1);
                        }
                        pos += k as u64;
                    }
                    Err(e) => bad!(format!("send-error/{}", errno_name(&e)), "send_msg op #{i} ({n} bytes at {pos}, anc={anc}): {e}"),
                }
            }
            SendOp::MsgVectored { parts, anc } => {
                kind_bit = 7;
                let (bufs, n) = parts_bufs(seed, pos, parts);
                let control = control_for(*anc, is_unix, &devnull);
                let BufResult(res, (bufs, _control)) = t.x().write_vectored_with_ancillary(bufs, control).await;
                match res {
                    Ok(k) => {
                        if let Err(e) = check_count(k, n, "send_msg_vectored") {
                            bad!("send-count", "send op #{i}: {e}");
                        }
                        if !same_bufs(seed, pos, &bufs) {
                            bad!("send-buffer-changed", "send_msg_vectored op #{i}: buffers came back modified");
                        }
                        if *anc && is_unix && n > 0 {
                            st.fds_sent.set(st.fds_sent.get() + 1);
                        }
                        if k < n {
                            st.partial_sends.set(st.partial_sends.get() + 1);
                        }
                        pos += k as u64;
                    }
                    Err(e) => bad!(format!("send-error/{}", errno_name(&e)), "send_msg_vectored op #{i} ({parts:?} at {pos}, anc={anc}): {e}"),
                }
            }
            SendOp::MsgZc { n, anc } => {
                kind_bit = 8;
                let n = *n as usize;
                let buf = fill(seed, pos, n);
                let control = control_for(*anc, is_unix, &devnull);
                let BufResult(res, fut) = t.x().write_zerocopy_with_ancillary(buf, control).await;
                match res {
                    Ok(k) => {
                        if let Err(e) = check_count(k, n, "send_msg_zerocopy") {
                            bad!("send-count", "send op #{i}: {e}");
                        }
                        let (buf, _c) = fut.await;
                        if mismatch(seed, pos, &buf).is_some() || buf.len() != n {
                            bad!("zerocopy-buffer-changed", "send_msg_zerocopy op #{i}: buffer came back modified");
                        }
                        if *anc && is_unix && n > 0 {
                            st.fds_sent.set(st.fds_sent.get() + 1);
                        }
                        if k < n {
                            st.partial_sends.set(st.partial_sends.get() + 1);
                        }
                        pos += k as u64;
                    }
                    Err(e) if is_unix && e.raw_os_error() == Some(libc::EOPNOTSUPP) => {
                        log.label("zc-unsupported-on-unix");
                        let (buf, _c) = fut.await;
                        if mismatch(seed, pos, &buf).is_some() || buf.len() != n {
                            bad!("zerocopy-buffer-changed", "send_msg_zerocopy op #{i}: buffer came back modified");
                        }
                    }
                    Err(e) => bad!(format!("send-error/{}", errno_name(&e)), "send_msg_zerocopy op #{i} ({n} bytes at {pos}, anc={anc}): {e}"),
                }
            }
        }
        st.kinds_tx.set(st.kinds_tx.get() | (1 << kind_bit));
    }
    for (p, f) in deferred {
        let bufs = f.await;
        if !same_bufs(seed, p, &bufs) {
            bad!("zerocopy-buffer-changed", "deferred zero-copy future returned a modified buffer");
        }
    }
    st.sent_total.set(Some(pos));
    if let Err(e) = t.w().shutdown().await {
        bad!(format!("shutdown-error/{}", errno_name(&e)), "shutdown after {pos} bytes: {e}");
    }
    // shutdown() must have closed the *write* direction: the OS refuses further sends with EPIPE
    // (a direct, timing-free observation on the descriptor itself).
    let r = unsafe { libc::send(raw, b"x".as_ptr() as _, 1, libc::MSG_NOSIGNAL | libc::MSG_DONTWAIT) };
    let errno = io::Error::last_os_error().raw_os_error();
    if !(r == -1 && errno == Some(libc::EPIPE)) {
        bad!("shutdown-write-side-open", "after shutdown().await returned Ok a raw send on the descriptor gave {r} (errno {errno:?}); expected EPIPE");
    }
    st.shutdown_done.set(true);
}

struct RxState<'a> {
    st: &'a DirState,
    log: &'a SharedLog,
    pos: u64,
    eof: bool,
    devnull: &'a DevNull,
}

impl RxState<'_> {
    fn bad(&self, sig: impl AsRef<str>, detail: String) {
        self.log.violate(format!("C14/stream/{}", sig.as_ref()), detail);
    }

    /// n == 0 from a receive with capacity > 0: end of stream.
    fn on_eof(&mut self, what: &str) -> bool {
        if !self.eof {
            match self.st.sent_total.get() {
                None => {
                    self.bad("eof-before-shutdown", format!("{what}: end of stream after {} bytes although the sender has not shut down yet", self.pos));
                    return false;
                }
                Some(t) if t != self.pos => {
                    self.bad("eof-before-all-data", format!("{what}: end of stream after {} bytes, the sender sent {t}", self.pos));
                    return false;
                }
                _ => {}
            }
            self.eof = true;
            self.st.saw_eof.set(true);
        }
        true
    }

    fn data(&mut self, what: &str, data: &[u8]) -> bool {
        if data.is_empty() {
            return true;
        }
        if self.eof {
            self.bad("data-after-eof", format!("{what}: {} bytes after end of stream", data.len()));
            return false;
        }
        if let Some(at) = mismatch(self.st.seed, self.pos, data) {
            let want: Vec<u8> = fill(self.st.seed, self.pos + at as u64, 8.min(data.len() - at));
            self.bad(
                "data-mismatch",
                format!(
                    "{what}: stream position {} (byte {at} of a {}-byte chunk): got {:02x?}, sent {:02x?}",
                    self.pos + at as u64,
                    data.len(),
                    &data[at..(at + 8).min(data.len())],
                    want
                ),
            );
            return false;
        }
        self.pos += data.len() as u64;
        self.st.received.set(self.pos);
        true
    }

    fn control(&mut self, what: &str, control: &[u8], flags: compio_io::ancillary::ReturnFlags, is_unix: bool) -> bool {
        let msgs = match parse_cmsgs(control) {
            Ok(m) => m,
            Err(e) => {
                self.bad("control-malformed", format!("{what}: control buffer of {} bytes does not parse: {e}", control.len()));
                return false;
            }
        };
        for (level, ty, data) in msgs {
            if level == libc::SOL_SOCKET && ty == libc::SCM_RIGHTS {
                for c in data.chunks_exact(4) {
                    let fd = i32::from_ne_bytes(c.try_into().unwrap());
                    let ok = self.devnull.same_file(fd);
                    unsafe { libc::close(fd) };
                    if !ok {
                        self.bad("scm-rights-wrong-file", format!("{what}: received descriptor {fd} is not the file that was sent"));
                        return false;
                    }
                    self.st.fds_received.set(self.st.fds_received.get() + 1);
                }
                if !is_unix {
                    self.bad("control-unexpected", format!("{what}: SCM_RIGHTS on a TCP stream"));
                    return false;
                }
            } else {
                self.bad("control-unexpected", format!("{what}: unexpected control message level {level} type {ty}"));
                return false;
            }
        }
        let _ = flags;
        true
    }
}

const NOBUFS_RETRIES: u32 = 200_000;

pub async fn run_receiver<T: Rx>(mut t: T, drv: Drv, is_unix: bool, pool_len: usize, ops: Vec<RecvOp>, tail: Tail, st: Rc<DirState>, log: SharedLog, devnull: Rc<DevNull>) {
    let mut s = RxState { st: &st, log: &log, pos: 0, eof: false, devnull: &devnull };
    let managed_cap = |len: u32| if len == 0 { pool_len } else { (len as usize).min(pool_len) };
    for (i, op) in ops.iter().enumerate() {
        if log.failed() {
            return;
        }
        let kind_bit;
        match op {
            RecvOp::Recv { cap, shape } => {
                kind_bit = 0;
                let cap = *cap as usize;
                let what = format!("recv op #{i} (cap {cap}, {shape:?})");
                match *shape {
                    Shape::Vec => {
                        let BufResult(res, buf) = t.r().read(Vec::with_capacity(cap)).await;
                        let cap = buf.capacity(); // the allocator may round up; that is the capacity recv saw
                        match res {
                            Ok(n) => {
                                if n > cap || buf.len() != n {
                                    s.bad("recv-count", format!("{what}: returned {n}, buffer len {} cap {cap}", buf.len()));
                                    return;
                                }
                                if n == 0 && cap > 0 {
                                    if !s.on_eof(&what) {
                                        return;
                                    }
                                } else if !s.data(&what, &buf) {
                                    return;
                                }
                            }
                            Err(e) => {
                                s.bad(format!("recv-error/{}", errno_name(&e)), format!("{what}: {e}"));
                                return;
                            }
                        }
                    }
                    Shape::Boxed => {
                        let b: Box<[u8]> = vec![0xEEu8; cap].into_boxed_slice();
                        let BufResult(res, buf) = t.r().read(b).await;
                        match res {
                            Ok(n) => {
                                if n > cap || buf.len() != cap {
                                    s.bad("recv-count", format!("{what}: returned {n}, buffer len {}", buf.len()));
                                    return;
                                }
                                if buf[n..].iter().any(|b| *b != 0xEE) {
                                    s.bad("recv-wrote-beyond-count", format!("{what}: bytes after the reported count {n} were modified"));
                                    return;
                                }
                                if n == 0 && cap > 0 {
                                    if !s.on_eof(&what) {
                                        return;
                                    }
                                } else if !s.data(&what, &buf[..n]) {
                                    return;
                                }
                            }
                            Err(e) => {
                                s.bad(format!("recv-error/{}", errno_name(&e)), format!("{what}: {e}"));
                                return;
                            }
                        }
                    }
                    Shape::Slice { pre, tail } => {
                        let (pre, tl) = (pre as usize, tail as usize);
                        let total = pre + cap + tl;
                        let v = vec![0xEEu8; total];
                        let base = v.as_ptr();
                        let BufResult(res, sl) = t.r().read(v.slice(pre..pre + cap)).await;
                        let v = sl.into_inner();
                        // the allocation is `total` initialised bytes whatever `len` the view left behind
                        let phys = unsafe { std::slice::from_raw_parts(v.as_ptr(), total) };
                        match res {
                            Ok(n) => {
                                if n > cap || v.as_ptr() != base {
                                    s.bad("recv-count", format!("{what}: returned {n} for a window of {cap}"));
                                    return;
                                }
                                if phys[..pre].iter().any(|b| *b != 0xEE) || phys[pre + n..].iter().any(|b| *b != 0xEE) {
                                    s.bad("recv-wrote-outside-window", format!("{what}: bytes outside window[..{n}] of the slice view were modified"));
                                    return;
                                }
                                if n == 0 && cap > 0 {
                                    if !s.on_eof(&what) {
                                        return;
                                    }
                                } else if !s.data(&what, &phys[pre..pre + n]) {
                                    return;
                                }
                            }
                            Err(e) => {
                                s.bad(format!("recv-error/{}", errno_name(&e)), format!("{what}: {e}"));
                                return;
                            }
                        }
                    }
                }
            }
            RecvOp::RecvVectored { caps } => {
                kind_bit = 1;
                let what = format!("recv_vectored op #{i} (caps {caps:?})");
                let bufs: Vec<Vec<u8>> = caps.iter().map(|c| Vec::with_capacity(*c as usize)).collect();
                let real: Vec<usize> = bufs.iter().map(|b| b.capacity()).collect();
                let total: usize = real.iter().sum();
                let BufResult(res, bufs) = t.r().read_vectored(bufs).await;
                match res {
                    Ok(n) => {
                        if n > total {
                            s.bad("recv-count", format!("{what}: returned {n} > total capacity {total}"));
                            return;
                        }
                        // filled in order: buffer j holds min(cap_j, rest)
                        let mut rest = n;
                        let mut all = Vec::with_capacity(n);
                        for (j, b) in bufs.iter().enumerate() {
                            let want = rest.min(real[j]);
                            if b.len() != want {
                                s.bad("recv-vectored-fill-order", format!("{what}: returned {n}; buffer #{j} (cap {}) holds {} bytes, expected {want}", real[j], b.len()));
                                return;
                            }
                            rest -= want;
                            all.extend_from_slice(b);
                        }
                        if n == 0 && total > 0 {
                            if !s.on_eof(&what) {
                                return;
                            }
                        } else if !s.data(&what, &all) {
                            return;
                        }
                    }
                    Err(e) => {
                        s.bad(format!("recv-error/{}", errno_name(&e)), format!("{what}: {e}"));
                        return;
                    }
                }
            }
            RecvOp::ReadExact { n } => {
                kind_bit = 2;
                let n = *n as usize;
                let what = format!("read_exact op #{i} ({n} bytes)");
                let v: Vec<u8> = Vec::with_capacity(n);
                let n = v.capacity();
                let BufResult(res, buf) = t.r().read_exact(v).await;
                match res {
                    Ok(()) => {
                        if buf.len() != n {
                            s.bad("recv-count", format!("{what}: Ok but buffer holds {} bytes", buf.len()));
                            return;
                        }
                        if !s.data(&what, &buf) {
                            return;
                        }
                    }
                    Err(e) if e.kind() == io::ErrorKind::UnexpectedEof => {
                        // the bytes before the end were still delivered into the buffer
                        if buf.len() >= n {
                            s.bad("read-exact-eof-but-full", format!("{what}: UnexpectedEof with {} bytes in the buffer", buf.len()));
                            return;
                        }
                        if !s.data(&what, &buf) || !s.on_eof(&what) {
                            return;
                        }
                    }
                    Err(e) => {
                        s.bad(format!("recv-error/{}", errno_name(&e)), format!("{what}: {e}"));
                        return;
                    }
                }
            }
            RecvOp::Managed { len } => {
                kind_bit = 3;
                let cap = managed_cap(*len);
                let what = format!("recv_managed op #{i} (len {len}, pool buffer {pool_len})");
                let mut tries = 0;
                loop {
                    match t.m().read_managed(*len as usize).await {
                        Ok(Some(buf)) => {
                            if buf.is_empty() || buf.len() > cap {
                                s.bad("recv-count", format!("{what}: buffer of {} bytes, limit {cap}", buf.len()));
                                return;
                            }
                            let ok = s.data(&what, &buf);
                            drop(buf);
                            if !ok {
                                return;
                            }
                            break;
                        }
                        Ok(None) => {
                            if !s.on_eof(&what) {
                                return;
                            }
                            break;
                        }
                        Err(e) if is_nobufs(&e) && tries < NOBUFS_RETRIES => {
                            tries += 1;
                            log.label("nobufs-retry");
                            yield_now().await;
                        }
                        Err(e) => {
                            s.bad(format!("recv-error/{}", errno_name(&e)), format!("{what}: {e}"));
                            return;
                        }
                    }
                }
            }
            RecvOp::Msg { cap, ctl } => {
                kind_bit = 4;
                let cap = *cap as usize;
                let what = format!("recv_msg op #{i} (cap {cap}, control {ctl})");
                macro_rules! go {
                    ($c:expr) => {{
                        let BufResult(res, (buf, control)) = t.m().read_with_ancillary(Vec::with_capacity(cap), $c).await;
                        (res, buf, control.to_vec())
                    }};
                }
                let (res, buf, control) = match *ctl {
                    0 => go!(AncillaryBuf::<0>::new()),
                    24 => go!(AncillaryBuf::<24>::new()),
                    _ => go!(AncillaryBuf::<64>::new()),
                };
                let ccap = *ctl as usize;
                let cap = buf.capacity();
                match res {
                    Ok((n, clen, flags)) => {
                        if n > cap || buf.len() != n || clen > ccap || control.len() != clen {
                            s.bad("recv-count", format!("{what}: returned n={n} clen={clen}; buffer len {} cap {cap}, control len {} cap {ccap}", buf.len(), control.len()));
                            return;
                        }
                        if !s.control(&what, &control, flags, is_unix) {
                            return;
                        }
                        if n == 0 && cap > 0 {
                            if !s.on_eof(&what) {
                                return;
                            }
                        } else if !s.data(&what, &buf) {
                            return;
                        }
                    }
                    Err(e) => {
                        s.bad(format!("recv-error/{}", errno_name(&e)), format!("{what}: {e}"));
                        return;
                    }
                }
            }
            RecvOp::MsgManaged { len, ctl } => {
                kind_bit = 5;
                let cap = managed_cap(*len);
                let what = format!("recv_msg_managed op #{i} (len {len}, control {ctl})");
                let mut tries = 0;
                loop {
                    macro_rules! go {
                        ($c:expr) => {
                            t.m().read_managed_with_ancillary(*len as usize, $c).await.map(|o| o.map(|(b, c, f)| (b, c.to_vec(), f)))
                        };
                    }
                    let r = match *ctl {
                        0 => go!(AncillaryBuf::<0>::new()),
                        24 => go!(AncillaryBuf::<24>::new()),
                        _ => go!(AncillaryBuf::<64>::new()),
                    };
                    match r {
                        Ok(Some((buf, control, flags))) => {
                            if buf.is_empty() || buf.len() > cap {
                                s.bad("recv-count", format!("{what}: buffer of {} bytes, limit {cap}", buf.len()));
                                return;
                            }
                            if !s.control(&what, &control, flags, is_unix) {
                                return;
                            }
                            let ok = s.data(&what, &buf);
                            drop(buf);
                            if !ok {
                                return;
                            }
                            break;
                        }
                        Ok(None) => {
                            if !s.on_eof(&what) {
                                return;
                            }
                            break;
                        }
                        Err(e) if is_nobufs(&e) && tries < NOBUFS_RETRIES => {
                            tries += 1;
                            log.label("nobufs-retry");
                            yield_now().await;
                        }
                        Err(e) => {
                            s.bad(format!("recv-error/{}", errno_name(&e)), format!("{what}: {e}"));
                            return;
                        }
                    }
                }
            }
        }
        st.kinds_rx.set(st.kinds_rx.get() | (1 << kind_bit));
    }
    // ---- tail: drain to end of stream
    match tail {
        Tail::Recv { cap } => {
            st.kinds_rx.set(st.kinds_rx.get() | 1);
            let cap = (cap as usize).max(1);
            while !s.eof {
                if log.failed() {
                    return;
                }
                let BufResult(res, buf) = t.r().read(Vec::with_capacity(cap)).await;
                match res {
                    Ok(0) => {
                        if !s.on_eof("tail recv") {
                            return;
                        }
                    }
                    Ok(n) => {
                        if n != buf.len() || n > buf.capacity() {
                            s.bad("recv-count", format!("tail recv: returned {n}, buffer len {}", buf.len()));
                            return;
                        }
                        if !s.data("tail recv", &buf) {
                            return;
                        }
                    }
                    Err(e) => {
                        s.bad(format!("recv-error/{}", errno_name(&e)), format!("tail recv: {e}"));
                        return;
                    }
                }
            }
        }
        Tail::Managed { len } => {
            st.kinds_rx.set(st.kinds_rx.get() | 8);
            let cap = managed_cap(len);
            let mut tries = 0;
            while !s.eof {
                if log.failed() {
                    return;
                }
                match t.m().read_managed(len as usize).await {
                    Ok(Some(buf)) => {
                        if buf.is_empty() || buf.len() > cap {
                            s.bad("recv-count", format!("tail recv_managed: buffer of {} bytes, limit {cap}", buf.len()));
                            return;
                        }
                        if !s.data("tail recv_managed", &buf) {
                            return;
                        }
                    }
                    Ok(None) => {
                        if !s.on_eof("tail recv_managed") {
                            return;
                        }
                    }
                    Err(e) if is_nobufs(&e) && tries < NOBUFS_RETRIES => {
                        tries += 1;
                        log.label("nobufs-retry");
                        yield_now().await;
                    }
                    Err(e) => {
                        s.bad(format!("recv-error/{}", errno_name(&e)), format!("tail recv_managed: {e}"));
                        return;
                    }
                }
            }
        }
        Tail::Multi { len } => {
            st.kinds_rx.set(st.kinds_rx.get() | 64);
            let cap = managed_cap(len);
            let mut tries = 0;
            while !s.eof {
                if log.failed() {
                    return;
                }
                let mut stream = std::pin::pin!(t.m().read_multi(len as usize));
                let mut items = 0u32;
                loop {
                    match stream.next().await {
                        Some(Ok(buf)) => {
                            items += 1;
                            if buf.is_empty() || buf.len() > cap {
                                s.bad("recv-count", format!("recv_multi: buffer of {} bytes, limit {cap}", buf.len()));
                                return;
                            }
                            if !s.data("recv_multi", &buf) {
                                return;
                            }
                        }
                        Some(Err(e)) if is_nobufs(&e) && tries < NOBUFS_RETRIES => {
                            tries += 1;
                            log.label("nobufs-retry");
                            yield_now().await;
                        }
                        Some(Err(e)) => {
                            s.bad(format!("recv-error/{}", errno_name(&e)), format!("recv_multi: {e}"));
                            return;
                        }
                        None => {
                            // the stream ends only at end of stream
                            if !s.on_eof("recv_multi stream end") {
                                return;
                            }
                            break;
                        }
                    }
                }
                if items > 1 {
                    log.label("multi>1");
                }
            }
        }
        Tail::MsgMulti { clen } => {
            st.kinds_rx.set(st.kinds_rx.get() | 128);
            let mut tries = 0;
            while !s.eof {
                if log.failed() {
                    return;
                }
                let mut stream = std::pin::pin!(t.m().read_multi_with_ancillary(clen as usize));
                loop {
                    match stream.next().await {
                        Some(Ok(r)) => {
                            if r.data().len() > pool_len {
                                s.bad("recv-count", format!("recv_msg_multi: payload of {} bytes from a pool buffer of {pool_len}", r.data().len()));
                                return;
                            }
                            let anc = r.ancillary().to_vec();
                            if !s.control("recv_msg_multi", &anc, r.flags(), is_unix) {
                                return;
                            }
                            if r.data().is_empty() {
                                if s.st.sent_total.get() != Some(s.pos) {
                                    s.bad(
                                        format!("recv_msg_multi/empty-item-before-eof/{}", drv.name()),
                                        format!("recv_msg_multi yielded an item without payload after {} bytes; sender total so far {:?}", s.pos, s.st.sent_total.get()),
                                    );
                                    return;
                                }
                                if !s.on_eof("recv_msg_multi empty item") {
                                    return;
                                }
                                break;
                            }
                            if !s.data("recv_msg_multi", r.data()) {
                                return;
                            }
                        }
                        Some(Err(e)) if is_nobufs(&e) && tries < NOBUFS_RETRIES => {
                            tries += 1;
                            log.label("nobufs-retry");
                            yield_now().await;
                        }
                        Some(Err(e)) => {
                            s.bad(format!("recv-error/{}", errno_name(&e)), format!("recv_msg_multi: {e}"));
                            return;
                        }
                        None => {
                            if !s.on_eof("recv_msg_multi stream end") {
                                return;
                            }
                            break;
                        }
                    }
                }
            }
        }
        Tail::ReadToEnd => {
            st.kinds_rx.set(st.kinds_rx.get() | 256);
            if !s.eof {
                let BufResult(res, buf) = t.r().read_to_end(Vec::new()).await;
                match res {
                    Ok(n) => {
                        if n != buf.len() {
                            s.bad("recv-count", format!("read_to_end: returned {n}, buffer holds {}", buf.len()));
                            return;
                        }
                        if !s.data("read_to_end", &buf) || !s.on_eof("read_to_end") {
                            return;
                        }
                    }
                    Err(e) => {
                        s.bad(format!("recv-error/{}", errno_name(&e)), format!("read_to_end: {e}"));
                    }
                }
            }
        }
    }
}

// ------------------------------------------------------------------------------------------------
// interpreter

fn set_buf(fd: RawFd, opt: i32, v: u32) {
    if v > 0 {
        let v = v as i32;
        unsafe { libc::setsockopt(fd, libc::SOL_SOCKET, opt, &v as *const _ as _, 4) };
    }
}

macro_rules! spawn_dirs {
    ($rt:expr, $S:ty, $a:expr, $b:expr, $case:expr, $states:expr, $log:expr, $devnull:expr, $is_unix:expr, $handles:expr) => {{
        let bidir = $case.dirs.len() == 2;
        let (a, b): ($S, $S) = ($a, $b);
        // endpoint A sends direction 0 and receives direction 1; endpoint B the other way round
        let (a_r, a_w) = if bidir { a.into_split() } else { (a.clone(), a) };
        let (b_r, b_w) = if bidir { b.into_split() } else { (b.clone(), b) };
        let mut txs = vec![Some(a_w), Some(b_w)];
        let mut rxs = vec![Some(b_r), Some(a_r)];
        if !bidir {
            // unidirectional: only one handle per end stays alive
            txs[1] = None;
            rxs[1] = None;
        }
        for (d, dir) in $case.dirs.iter().enumerate() {
            let st = $states[d].clone();
            let tx: $S = txs[d].take().unwrap();
            let rx: $S = rxs[d].take().unwrap();
            set_buf(tx.as_raw_fd(), libc::SO_SNDBUF, dir.sndbuf);
            set_buf(rx.as_raw_fd(), libc::SO_RCVBUF, dir.rcvbuf);
            let raw = tx.as_raw_fd();
            let (ops, log, dn, mode) = (dir.send.clone(), $log.clone(), $devnull.clone(), dir.tx_mode);
            let st2 = st.clone();
            $handles.push($rt.spawn(async move {
                match mode {
                    Mode::Owned => run_sender(OwnedEnd(tx), raw, $is_unix, ops, st2, log, dn).await,
                    Mode::Ref => run_sender(RefEnd(&tx), raw, $is_unix, ops, st2, log, dn).await,
                    Mode::Half => {
                        let (_r, w) = (&tx).split();
                        run_sender(HalfTx(w, &tx), raw, $is_unix, ops, st2, log, dn).await
                    }
                }
                // the sending end stays open until the case is over (dropping it early would turn a
                // bug in shutdown into a clean EOF)
                std::future::pending::<()>().await;
            }));
            let (ops, tail, log, dn, mode) = (dir.recv.clone(), dir.tail.clone(), $log.clone(), $devnull.clone(), dir.rx_mode);
            let pool_len = $case.pool_len as usize;
            let drv = $case.drv;
            $handles.push($rt.spawn(async move {
                match mode {
                    Mode::Owned => run_receiver(OwnedEnd(rx), drv, $is_unix, pool_len, ops, tail, st, log, dn).await,
                    Mode::Ref => {
                        run_receiver(RefEnd(&rx), drv, $is_unix, pool_len, ops, tail, st, log, dn).await;
                        drop(rx);
                    }
                    Mode::Half => {
                        let (r, _w) = (&rx).split();
                        run_receiver(HalfRx(r, &rx), drv, $is_unix, pool_len, ops, tail, st, log, dn).await
                    }
                }
            }));
        }
    }};
}

pub fn run_stream(case: &StreamCase) -> Outcome {
    let mut cfg = RtCfg::new(case.drv);
    cfg.pool_len = case.pool_len as usize;
    cfg.pool_size = 8;
    let rt = match build_rt(&cfg) {
        Ok(rt) => rt,
        Err(e) => return Outcome::inconclusive(format!("runtime build: {e}")),
    };
    let log = SharedLog::new();
    let devnull = match DevNull::open() {
        Ok(d) => Rc::new(d),
        Err(e) => return Outcome::inconclusive(format!("open /dev/null: {e}")),
    };
    let states: Vec<Rc<DirState>> = case
        .dirs
        .iter()
        .map(|d| {
            Rc::new(DirState {
                seed: d.seed as u64 + 1,
                sent_total: Cell::new(None),
                shutdown_done: Cell::new(false),
                received: Cell::new(0),
                saw_eof: Cell::new(false),
                partial_sends: Cell::new(0),
                fds_sent: Cell::new(0),
                fds_received: Cell::new(0),
                kinds_tx: Cell::new(0),
                kinds_rx: Cell::new(0),
            })
        })
        .collect();
    let tmp = if case.transport == Transport::Unix { tempfile::Builder::new().prefix("c14s").tempdir().ok() } else { None };
    let is_unix = case.transport == Transport::Unix;

    // ---- connect (through compio: connect + accept as concurrent tasks)
    enum Pair {
        Tcp(TcpStream, TcpStream),
        Unix(UnixStream, UnixStream),
    }
    let tr = case.transport;
    let path = tmp.as_ref().map(|t| t.path().join("s.sock"));
    let mut setup = rt.spawn(async move {
        match tr {
            Transport::Tcp4 | Transport::Tcp6 => {
                let l = TcpListener::bind(if tr == Transport::Tcp4 { "127.0.0.1:0" } else { "[::1]:0" }).await?;
                let addr = l.local_addr()?;
                let acc = compio_runtime::spawn(async move { l.accept().await });
                let a = TcpStream::connect(addr).await?;
                let (b, _) = acc.await.map_err(|_| io::Error::other("accept task failed"))??;
                io::Result::Ok(Pair::Tcp(a, b))
            }
            Transport::Unix => {
                let p = path.unwrap();
                let l = UnixListener::bind(&p).await?;
                let acc = compio_runtime::spawn(async move { l.accept().await });
                let a = UnixStream::connect(&p).await?;
                let (b, _) = acc.await.map_err(|_| io::Error::other("accept task failed"))??;
                Ok(Pair::Unix(a, b))
            }
        }
    });
    if !drive(&rt, || setup.is_finished(), Duration::from_secs(60)) {
        return Outcome::inconclusive("watchdog: connection setup");
    }
    let pair = match join_now(&mut setup) {
        Some(Ok(Ok(p))) => p,
        Some(Ok(Err(e))) => return Outcome::inconclusive(format!("connection setup: {e}")),
        Some(Err(e)) => return Outcome::violation(format!("C14/stream/setup-{}", netlab::strip_digits(&e)), e),
        None => return Outcome::inconclusive("setup not finished"),
    };

    let mut handles = vec![];
    rt.enter(|| match pair {
        Pair::Tcp(a, b) => spawn_dirs!(rt, TcpStream, a, b, case, states, log, devnull, is_unix, handles),
        Pair::Unix(a, b) => spawn_dirs!(rt, UnixStream, a, b, case, states, log, devnull, is_unix, handles),
    });

    // receivers are the odd handles; the case is over when every receiver finished (senders park)
    let finished = drive(
        &rt,
        || {
            log.failed()
                || handles.iter().enumerate().any(|(i, h)| i % 2 == 0 && h.is_finished())
                || (handles.iter().enumerate().all(|(i, h)| i % 2 == 0 || h.is_finished()) && states.iter().all(|s| s.shutdown_done.get()))
        },
        Duration::from_secs(120),
    );
    // a panicking task counts as a violation with the panic text as its shape
    let mut panic_msg = None;
    for (i, h) in handles.iter_mut().enumerate() {
        if h.is_finished() {
            if let Some(Err(e)) = join_now(h) {
                panic_msg = Some((i, e));
            }
        }
    }
    let l = log.take();
    let result = if let Some((sig, detail)) = l.violation {
        Outcome::violation(sig, detail)
    } else if let Some((i, e)) = panic_msg {
        Outcome::violation(format!("C14/stream/{}", netlab::strip_digits(&e)), format!("task #{i}: {e}"))
    } else if !finished {
        let pending: Vec<String> = states
            .iter()
            .enumerate()
            .map(|(d, s)| format!("dir{d}: sent_total={:?} shutdown_done={} received={} eof={}", s.sent_total.get(), s.shutdown_done.get(), s.received.get(), s.saw_eof.get()))
            .collect();
        Outcome::inconclusive(format!("watchdog: {}", pending.join("; ")))
    } else {
        let mut bad = None;
        for (d, s) in states.iter().enumerate() {
            if !s.saw_eof.get() || s.sent_total.get() != Some(s.received.get()) {
                bad = Some(Outcome::violation(
                    "C14/stream/total-mismatch",
                    format!("direction {d}: sender total {:?}, receiver got {} (eof seen: {})", s.sent_total.get(), s.received.get(), s.saw_eof.get()),
                ));
            }
            if s.fds_received.get() > s.fds_sent.get() {
                bad = Some(Outcome::violation("C14/stream/scm-rights-duplicated", format!("direction {d}: {} descriptors sent, {} received", s.fds_sent.get(), s.fds_received.get())));
            }
        }
        match bad {
            Some(b) => b,
            None => {
                let mut labels = l.labels;
                labels.push(format!("drv:{}", case.drv.name()));
                labels.push(format!("transport:{:?}", case.transport));
                let mut nontrivial = false;
                for s in &states {
                    let ktx = s.kinds_tx.get().count_ones();
                    let krx = s.kinds_rx.get().count_ones();
                    if ktx >= 2 || krx >= 2 {
                        nontrivial = true;
                        labels.push("mixed-kinds".into());
                    }
                    if s.partial_sends.get() > 0 {
                        nontrivial = true;
                        labels.push("partial-send".into());
                    }
                    if s.fds_received.get() > 0 {
                        labels.push("scm-rights-delivered".into());
                    }
                    for (bit, name) in ["send", "send_vectored", "write_all", "write_vectored_all", "zc", "zc_vectored", "msg", "msg_vectored", "msg_zc"].iter().enumerate() {
                        if s.kinds_tx.get() & (1 << bit) != 0 {
                            labels.push(format!("tx:{name}"));
                        }
                    }
                    for (bit, name) in ["recv", "recv_vectored", "read_exact", "managed", "msg", "msg_managed", "multi", "msg_multi", "read_to_end"].iter().enumerate() {
                        if s.kinds_rx.get() & (1 << bit) != 0 {
                            labels.push(format!("rx:{name}"));
                        }
                    }
                    if s.received.get() > 256 * 1024 {
                        labels.push("bytes>256K".into());
                    }
                }
                if case.dirs.len() == 2 {
                    labels.push("bidirectional".into());
                }
                for d in &case.dirs {
                    labels.push(format!("txmode:{:?}", d.tx_mode));
                    labels.push(format!("rxmode:{:?}", d.rx_mode));
                }
                labels.sort();
                labels.dedup();
                Outcome::pass_owned(nontrivial, labels)
            }
        }
    };
    drop(handles);
    drop(rt);
    result
}

// ------------------------------------------------------------------------------------------------
// generator

fn size() -> impl Strategy<Value = u32> + Clone {
    prop_oneof![
        2 => Just(0u32),
        8 => 1u32..=64,
        6 => 65u32..=4096,
        3 => 4097u32..=65536,
        2 => 65537u32..=300 * 1024,
    ]
}

fn small_size() -> impl Strategy<Value = u32> + Clone {
    prop_oneof![1 => Just(0u32), 6 => 1u32..=64, 4 => 65u32..=4096, 1 => 4097u32..=40_000]
}

fn parts() -> impl Strategy<Value = Vec<u32>> + Clone {
    vec(small_size(), 1..=4)
}

fn mode() -> impl Strategy<Value = Mode> + Clone {
    prop_oneof![Just(Mode::Owned), Just(Mode::Ref), Just(Mode::Half)]
}

fn send_op() -> impl Strategy<Value = SendOp> + Clone {
    prop_oneof![
        4 => size().prop_map(|n| SendOp::Send { n }),
        2 => parts().prop_map(|parts| SendOp::SendVectored { parts }),
        3 => size().prop_map(|n| SendOp::WriteAll { n }),
        1 => parts().prop_map(|parts| SendOp::WriteVectoredAll { parts }),
        2 => (size(), any::<bool>()).prop_map(|(n, defer)| SendOp::Zc { n, defer }),
        1 => (parts(), any::<bool>()).prop_map(|(parts, defer)| SendOp::ZcVectored { parts, defer }),
        2 => (size(), any::<bool>()).prop_map(|(n, anc)| SendOp::Msg { n, anc }),
        1 => (parts(), any::<bool>()).prop_map(|(parts, anc)| SendOp::MsgVectored { parts, anc }),
        1 => (small_size(), any::<bool>()).prop_map(|(n, anc)| SendOp::MsgZc { n, anc }),
    ]
}

fn shape() -> impl Strategy<Value = Shape> + Clone {
    prop_oneof![3 => Just(Shape::Vec), 1 => Just(Shape::Boxed), 2 => (any::<u8>(), any::<u8>()).prop_map(|(pre, tail)| Shape::Slice { pre, tail })]
}

fn recv_op() -> impl Strategy<Value = RecvOp> + Clone {
    prop_oneof![
        4 => (size(), shape()).prop_map(|(cap, shape)| RecvOp::Recv { cap, shape }),
        2 => parts().prop_map(|caps| RecvOp::RecvVectored { caps }),
        2 => small_size().prop_map(|n| RecvOp::ReadExact { n }),
        2 => prop_oneof![Just(0u32), 1u32..=9000].prop_map(|len| RecvOp::Managed { len }),
        2 => (small_size(), prop_oneof![Just(0u8), Just(24u8), Just(64u8)]).prop_map(|(cap, ctl)| RecvOp::Msg { cap, ctl }),
        1 => (prop_oneof![Just(0u32), 1u32..=9000], prop_oneof![Just(0u8), Just(24u8), Just(64u8)]).prop_map(|(len, ctl)| RecvOp::MsgManaged { len, ctl }),
    ]
}

fn tail() -> impl Strategy<Value = Tail> + Clone {
    prop_oneof![
        3 => prop_oneof![1u32..=64, 1000u32..=70_000].prop_map(|cap| Tail::Recv { cap }),
        2 => prop_oneof![Just(0u32), 1u32..=9000].prop_map(|len| Tail::Managed { len }),
        3 => prop_oneof![Just(0u32), 1u32..=9000].prop_map(|len| Tail::Multi { len }),
        2 => prop_oneof![1 => Just(0u8), 1 => Just(64u8), 4 => 1u8..=128].prop_map(|clen| Tail::MsgMulti { clen }),
        2 => Just(Tail::ReadToEnd),
    ]
}

fn bufopt() -> impl Strategy<Value = u32> + Clone {
    prop_oneof![3 => Just(0u32), 1 => Just(4096u32), 1 => Just(32768u32)]
}

fn dir() -> impl Strategy<Value = Dir> + Clone {
    (any::<u16>(), mode(), mode(), vec(send_op(), 0..=6), vec(recv_op(), 0..=6), tail(), bufopt(), bufopt()).prop_map(|(seed, tx_mode, rx_mode, send, recv, tail, sndbuf, rcvbuf)| Dir {
        seed,
        tx_mode,
        rx_mode,
        send,
        recv,
        tail,
        sndbuf,
        rcvbuf,
    })
}

pub fn case_strategy() -> impl Strategy<Value = StreamCase> + Clone {
    (
        prop_oneof![Just(Drv::IoUring), Just(Drv::Poll)],
        prop_oneof![2 => Just(Transport::Tcp4), 1 => Just(Transport::Tcp6), 2 => Just(Transport::Unix)],
        vec(dir(), 1..=2),
        prop_oneof![Just(64u32), Just(512u32), Just(4096u32), Just(16384u32)],
    )
        .prop_map(|(drv, transport, dirs, pool_len)| {
            let mut c = StreamCase { drv, transport, dirs, pool_len };
            normalise(&mut c);
            c
        })
}

/// Map generated values into the domain the interfaces accept (by construction, no filtering).
pub fn normalise(c: &mut StreamCase) {
    for d in &mut c.dirs {
        // known finding (fusion build on the polling driver loses set_result of the msg-multi ops):
        // while it is listed as "known" the shape is not generated; the regression case still runs
        if crate::EXCLUDE_FUSION_POLL.load(std::sync::atomic::Ordering::Relaxed) && c.drv == Drv::Poll {
            if let Tail::MsgMulti { .. } = d.tail {
                d.tail = Tail::Multi { len: 0 };
            }
        }
        // the io_uring multishot recvmsg layout needs header + name + control + payload in one pool buffer
        if let Tail::MsgMulti { clen } = d.tail {
            let need = 16 + 128 + clen as u32 + 64;
            if c.pool_len < need {
                c.pool_len = 512;
            }
        }
        let total: u64 = d
            .send
            .iter()
            .map(|o| match o {
                SendOp::Send { n } | SendOp::WriteAll { n } | SendOp::Zc { n, .. } | SendOp::Msg { n, .. } | SendOp::MsgZc { n, .. } => *n as u64,
                SendOp::SendVectored { parts } | SendOp::WriteVectoredAll { parts } | SendOp::ZcVectored { parts, .. } | SendOp::MsgVectored { parts, .. } => parts.iter().map(|p| *p as u64).sum(),
            })
            .sum();
        // keep a drain loop below ~2000 receives
        if let Tail::Recv { cap } = &mut d.tail {
            *cap = (*cap).max((total / 2000) as u32 + 1);
        }
    }
}

pub fn part() -> Part<StreamCase> {
    let mut p = Part::new(
        "C14",
        "stream",
        "case = driver {io_uring, poll} x transport {TCP v4, TCP v6, Unix stream} x 1-2 directions on one connection, each with a sender script of 0-6 ops \
         (send, send_vectored, write_all, write_vectored_all, send_zerocopy(_vectored) with immediate or deferred buffer return, send_msg(_vectored)/send_msg_zerocopy with or without \
         ancillary data; sizes 0..300 KiB) through an owned stream / &stream / borrowed split half, then shutdown; and a receiver script of 0-6 ops (recv into Vec / Box<[u8]> / slice view \
         with canaries, recv_vectored, read_exact, recv_managed, recv_msg, recv_msg_managed) followed by a tail that drains to EOF (recv loop, recv_managed loop, recv_multi stream, \
         read_multi_with_ancillary stream with any control length 0..128, read_to_end); optional small SO_SNDBUF/SO_RCVBUF; sender and receiver(s) are concurrent tasks on one runtime stepped by the harness. \
         Non-trivial = some direction used >= 2 different send kinds or >= 2 different receive kinds, or had a partial send (count < buffer length); distinct = distinct serialised case.",
    );
    p.quick_cases = 600;
    p.thorough_cases = 12000;
    p.threads = 4;
    p.max_shrink_iters = 300;
    p.assumptions = vec![
        "the kernel's loopback TCP / Unix stream transports are trusted to be lossless and ordered",
        "ENOBUFS/ResourceBusy from managed receives while another consumer of the shared pool is active is legal and retried",
        "a multishot receive stream is only ever dropped at end of stream (bytes already handed to a dropped multishot are legitimately lost; that is C07's ground)",
    ];
    p
}

pub fn run(s: &mut Session) {
    let mut p = part();
    p.regressions = vec![
        (
            "fusion-poll-recv_msg_multi",
            StreamCase {
                drv: Drv::Poll,
                transport: Transport::Tcp4,
                pool_len: 512,
                dirs: vec![Dir {
                    seed: 0,
                    tx_mode: Mode::Owned,
                    rx_mode: Mode::Owned,
                    send: vec![SendOp::Send { n: 1 }],
                    recv: vec![],
                    tail: Tail::MsgMulti { clen: 0 },
                    sndbuf: 0,
                    rcvbuf: 0,
                }],
            },
        ),
        (
        "two-kinds-partial",
        StreamCase {
            drv: Drv::Poll,
            transport: Transport::Tcp4,
            pool_len: 512,
            dirs: vec![Dir {
                seed: 7,
                tx_mode: Mode::Owned,
                rx_mode: Mode::Half,
                send: vec![SendOp::Send { n: 300 * 1024 }, SendOp::WriteAll { n: 5000 }, SendOp::Zc { n: 100, defer: true }],
                recv: vec![RecvOp::ReadExact { n: 10 }, RecvOp::Recv { cap: 100, shape: Shape::Slice { pre: 3, tail: 5 } }, RecvOp::Managed { len: 0 }],
                tail: Tail::Multi { len: 0 },
                sndbuf: 4096,
                rcvbuf: 4096,
            }],
        },
    )];
    let _ = &mut p;
    s.run_part(p, case_strategy(), run_stream);
}
